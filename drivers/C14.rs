// vf_driver_C14 -- bounded stand-in / counterexample finder for property C14
//
//   "sort() is a pure reordering into the documented canonical order"
//
// Generator
//   (1) small scope, exhaustive: one module with 3 MEASUREMENTs, 2 CHARACTERISTICs, a COMPU_METHOD, a BLOB, a UNIT,
//       a comment and an IF_DATA; ALL orderings of a 6-chunk (quick) / 7-chunk (thorough) selection of them, in two
//       variants (with / without MOD_PAR, MOD_COMMON, A2ML in front).
//   (2) random files: 1-3 modules (names unsorted), every one of the 20 named element kinds plus A2ML, MOD_COMMON,
//       MOD_PAR, IF_DATA (known to the A2ML / unknown), USER_RIGHTS, VARIANT_CODING in random interleaving; names
//       with shared prefixes, mixed case, digits, '_', '.', '[n]'; the same name reused in different kinds;
//       comments (/* */ and //) between elements and inside elements; strings containing "/begin", "/*", "//";
//       optional HEADER, ASAP2_VERSION, A2ML_VERSION; random white space.
// Oracle (public API + a depth-aware text scanner of its own; no library internals)
//   O1 only reorders: per module (matched by name) every list holds the same elements (PartialEq, which ignores
//      layout) in name order; A2ML / MOD_COMMON / MOD_PAR / VARIANT_CODING / IF_DATA (same order) / USER_RIGHTS
//      (stable by user level id) / HEADER / versions unchanged; and the written text block of every element
//      ("/begin KIND name ... /end KIND", includes inner comments and formatting) is token-identical (white space aside) before and after.
//   O2 written text: inside every MODULE the children are grouped by kind in the documented kind order of sort.rs
//      (A2ML, MOD_COMMON, MOD_PAR, IF_DATA, CHARACTERISTIC, MEASUREMENT, AXIS_PTS, INSTANCE, BLOB, COMPU_METHOD,
//      COMPU_TAB, COMPU_VTAB, COMPU_VTAB_RANGE, TYPEDEF_STRUCTURE, TYPEDEF_CHARACTERISTIC, TYPEDEF_MEASUREMENT,
//      TYPEDEF_AXIS, TYPEDEF_BLOB, FRAME, FUNCTION, GROUP, RECORD_LAYOUT, TRANSFORMER, UNIT, USER_RIGHTS,
//      VARIANT_CODING), strictly ascending by name (byte order) within a kind; no section comment of the unsorted
//      file survives between the children (it would label the wrong neighbour); HEADER first, MODULEs by name.
//   O3 reload: the written text loads, equals the sorted model (PartialEq compares list ORDER too) and has the same
//      sequence of children.
//   O4 second sort: model equal, written text byte-identical; sorting the reloaded model does not move anything.
// NOT covered: /include files, files that do not load, duplicate names.

use a2lfile::*;
use std::collections::{BTreeMap, HashSet};
use std::panic::{catch_unwind, AssertUnwindSafe};
use std::time::{Duration, Instant};

const PID: &str = "C14";

// ------------------------------------------------------------------------------------------------ infrastructure

struct Rng(u64);
impl Rng {
    fn new(seed: u64) -> Self {
        Rng(seed.wrapping_mul(0x9E37_79B9_7F4A_7C15) ^ 0xD1B5_4A32_D192_ED03)
    }
    fn next(&mut self) -> u64 {
        // splitmix64
        self.0 = self.0.wrapping_add(0x9E37_79B9_7F4A_7C15);
        let mut z = self.0;
        z = (z ^ (z >> 30)).wrapping_mul(0xBF58_476D_1CE4_E5B9);
        z = (z ^ (z >> 27)).wrapping_mul(0x94D0_49BB_1331_11EB);
        z ^ (z >> 31)
    }
    fn below(&mut self, n: usize) -> usize {
        if n == 0 {
            0
        } else {
            (self.next() % n as u64) as usize
        }
    }
    fn chance(&mut self, num: usize, den: usize) -> bool {
        self.below(den) < num
    }
    fn pick<'a, T>(&mut self, items: &'a [T]) -> &'a T {
        &items[self.below(items.len())]
    }
    fn shuffle<T>(&mut self, v: &mut [T]) {
        for i in (1..v.len()).rev() {
            let j = self.below(i + 1);
            v.swap(i, j);
        }
    }
}

fn json_escape(s: &str) -> String {
    let mut out = String::with_capacity(s.len() + 2);
    out.push('"');
    for c in s.chars() {
        match c {
            '"' => out.push_str("\\\""),
            '\\' => out.push_str("\\\\"),
            '\n' => out.push_str("\\n"),
            '\r' => out.push_str("\\r"),
            '\t' => out.push_str("\\t"),
            c if (c as u32) < 0x20 => out.push_str(&format!("\\u{:04x}", c as u32)),
            c => out.push(c),
        }
    }
    out.push('"');
    out
}

fn fnv(s: &str) -> u64 {
    let mut h: u64 = 0xcbf29ce484222325;
    for b in s.bytes() {
        h ^= b as u64;
        h = h.wrapping_mul(0x100000001b3);
    }
    h
}

struct Report {
    cases: u64,
    distinct: HashSet<u64>,
    failures: u64,
    printed: HashSet<String>,
    warnings: u64,
}
impl Report {
    fn fail(&mut self, case: &str, expected: &str, happened: &str, input: &str) {
        self.failures += 1;
        if self.printed.len() < 5 && !self.printed.contains(case) {
            self.printed.insert(case.to_string());
            println!(
                "FAILING-INPUT property={PID} case={case} :: {expected} :: {happened} :: {}",
                json_escape(input)
            );
        }
    }
}

fn panic_text(p: Box<dyn std::any::Any + Send>) -> String {
    if let Some(s) = p.downcast_ref::<&str>() {
        s.to_string()
    } else if let Some(s) = p.downcast_ref::<String>() {
        s.clone()
    } else {
        "panic".to_string()
    }
}

/// run a check in its own thread: Err("timeout") / Err("panic: ..") / the check's own verdict
fn guarded<F>(secs: u64, f: F) -> Result<Result<u64, Failure>, String>
where
    F: FnOnce() -> Result<u64, Failure> + Send + 'static,
{
    let (tx, rx) = std::sync::mpsc::channel();
    std::thread::Builder::new()
        .stack_size(32 << 20)
        .spawn(move || {
            let r = catch_unwind(AssertUnwindSafe(f));
            let _ = tx.send(r);
        })
        .unwrap();
    match rx.recv_timeout(Duration::from_secs(secs)) {
        Ok(Ok(v)) => Ok(v),
        Ok(Err(p)) => Err(format!("panic: {}", panic_text(p))),
        Err(_) => Err("timeout".to_string()),
    }
}

struct Failure {
    case: String,
    expected: String,
    happened: String,
}
fn failure<T>(case: &str, expected: impl Into<String>, happened: impl Into<String>) -> Result<T, Failure> {
    Err(Failure {
        case: case.to_string(),
        expected: expected.into(),
        happened: happened.into(),
    })
}

// ------------------------------------------------------------------------------------------------ text scanner
// A small scanner of its own (white space, /* */ and // comments, "strings" with \" and "" escapes, words);
// it follows /begin../end nesting and lists the children of PROJECT and of every MODULE.

#[derive(Clone, Debug, PartialEq, Eq)]
struct Item {
    kind: String,  // block tag or "COMMENT"
    ident: String, // first word after the tag for named kinds; IF_DATA: its whole text; comments: their text
    text: String,  // "/begin ... /end KIND", white space normalised
}
#[derive(Clone, Debug, Default)]
struct ModuleScan {
    name: String,
    items: Vec<Item>,
}
#[derive(Clone, Debug, Default)]
struct Scan {
    project: Vec<(String, String)>, // children of PROJECT: (kind, ident)
    modules: Vec<ModuleScan>,
}

#[derive(Clone, Copy, PartialEq, Eq, Debug)]
enum Tok {
    Word,
    Str,
    Comment,
}

fn tokens(text: &str) -> Vec<(Tok, usize, usize)> {
    let b = text.as_bytes();
    let mut out = vec![];
    let mut i = 0;
    while i < b.len() {
        let c = b[i];
        if c.is_ascii_whitespace() {
            i += 1;
        } else if c == b'/' && i + 1 < b.len() && b[i + 1] == b'*' {
            let start = i;
            i += 2;
            while i + 1 < b.len() && !(b[i] == b'*' && b[i + 1] == b'/') {
                i += 1;
            }
            i = (i + 2).min(b.len());
            out.push((Tok::Comment, start, i));
        } else if c == b'/' && i + 1 < b.len() && b[i + 1] == b'/' {
            let start = i;
            while i < b.len() && b[i] != b'\n' {
                i += 1;
            }
            out.push((Tok::Comment, start, i));
        } else if c == b'"' {
            let start = i;
            i += 1;
            loop {
                if i >= b.len() {
                    break;
                }
                if b[i] == b'\\' {
                    i += 2;
                } else if b[i] == b'"' {
                    if i + 1 < b.len() && b[i + 1] == b'"' {
                        i += 2;
                    } else {
                        i += 1;
                        break;
                    }
                } else {
                    i += 1;
                }
            }
            i = i.min(b.len());
            out.push((Tok::Str, start, i));
        } else {
            let start = i;
            while i < b.len() && !b[i].is_ascii_whitespace() && b[i] != b'"' {
                if b[i] == b'/' && i + 1 < b.len() && (b[i + 1] == b'*' || b[i + 1] == b'/') && i > start {
                    break;
                }
                i += 1;
            }
            out.push((Tok::Word, start, i));
        }
    }
    out
}

const UNNAMED: [&str; 4] = ["A2ML", "MOD_COMMON", "MOD_PAR", "VARIANT_CODING"];

fn scan(text: &str) -> Result<Scan, String> {
    let toks = tokens(text);
    let word = |i: usize| -> &str {
        match toks.get(i) {
            Some((Tok::Word, s, e)) => &text[*s..*e],
            _ => "",
        }
    };
    let mut scan = Scan::default();
    let mut stack: Vec<String> = vec![];
    // currently open child of a MODULE: (kind, ident, start offset)
    let mut open: Option<(String, String, usize)> = None;
    let mut module_header_left = 0; // tokens of the MODULE header (name, long identifier) still to be skipped
    let mut i = 0;
    while i < toks.len() {
        let (kind, s, e) = toks[i];
        let t = &text[s..e];
        if kind == Tok::Comment {
            if stack.len() == 2 && stack[1] == "MODULE" && module_header_left == 0 {
                scan.modules.last_mut().unwrap().items.push(Item {
                    kind: "COMMENT".to_string(),
                    ident: t.to_string(),
                    text: t.to_string(),
                });
            }
            i += 1;
            continue;
        }
        if kind == Tok::Word && t == "/begin" {
            let tag = word(i + 1).to_string();
            if tag.is_empty() {
                return Err(format!("/begin without tag at byte {s}"));
            }
            if stack.len() == 1 && stack[0] == "PROJECT" {
                let ident = if tag == "MODULE" { word(i + 2).to_string() } else { String::new() };
                scan.project.push((tag.clone(), ident.clone()));
                if tag == "MODULE" {
                    scan.modules.push(ModuleScan {
                        name: ident,
                        items: vec![],
                    });
                    module_header_left = 2;
                    stack.push(tag);
                    i += 2;
                    continue;
                }
            } else if stack.len() == 2 && stack[1] == "MODULE" {
                let ident = if UNNAMED.contains(&tag.as_str()) {
                    String::new()
                } else if tag == "IF_DATA" {
                    match toks.get(i + 2) {
                        Some((Tok::Word, s2, e2)) if &text[*s2..*e2] != "/end" => text[*s2..*e2].to_string(),
                        _ => String::new(),
                    }
                } else {
                    word(i + 2).to_string()
                };
                open = Some((tag.clone(), ident, s));
            }
            stack.push(tag);
            i += 2;
            continue;
        }
        if kind == Tok::Word && t == "/end" {
            let tag = word(i + 1);
            match stack.pop() {
                Some(top) if top == tag => {}
                other => return Err(format!("/end {tag} closes {other:?} at byte {s}")),
            }
            if stack.len() == 2 && stack[1] == "MODULE" {
                if let Some((k, id, start)) = open.take() {
                    let end = toks[i + 1].2;
                    // the block's tokens (words, strings, comments) joined by one blank: sort() may re-indent
                    // the /end line, everything else has to stay
                    let block = &text[start..end];
                    let norm: Vec<&str> = tokens(block).iter().map(|(_, s, e)| &block[*s..*e]).collect();
                    let norm = norm.join(" ");
                    // IF_DATA have no name: they are identified by their whole text
                    let id = if k == "IF_DATA" { norm.clone() } else { id };
                    scan.modules.last_mut().unwrap().items.push(Item {
                        kind: k,
                        ident: id,
                        text: norm,
                    });
                }
            }
            i += 2;
            continue;
        }
        if stack.len() == 2 && stack[1] == "MODULE" && module_header_left > 0 {
            module_header_left -= 1;
        }
        i += 1;
    }
    if !stack.is_empty() {
        return Err(format!("unclosed blocks {stack:?}"));
    }
    Ok(scan)
}

// ------------------------------------------------------------------------------------------------ generator

const LIST_KINDS: [&str; 20] = [
    "AXIS_PTS",
    "BLOB",
    "CHARACTERISTIC",
    "COMPU_METHOD",
    "COMPU_TAB",
    "COMPU_VTAB",
    "COMPU_VTAB_RANGE",
    "FRAME",
    "FUNCTION",
    "GROUP",
    "INSTANCE",
    "MEASUREMENT",
    "RECORD_LAYOUT",
    "TRANSFORMER",
    "TYPEDEF_AXIS",
    "TYPEDEF_BLOB",
    "TYPEDEF_CHARACTERISTIC",
    "TYPEDEF_MEASUREMENT",
    "TYPEDEF_STRUCTURE",
    "UNIT",
];

/// kinds that must not share a name (same name space in the standard); other kinds may reuse names
fn namespace(kind: &str) -> &'static str {
    match kind {
        "MEASUREMENT" | "CHARACTERISTIC" | "AXIS_PTS" | "BLOB" | "INSTANCE" => "object",
        "TYPEDEF_AXIS" | "TYPEDEF_BLOB" | "TYPEDEF_CHARACTERISTIC" | "TYPEDEF_MEASUREMENT" | "TYPEDEF_STRUCTURE" => {
            "typedef"
        }
        "COMPU_TAB" | "COMPU_VTAB" | "COMPU_VTAB_RANGE" => "tab",
        "COMPU_METHOD" => "cm",
        "FRAME" => "frame",
        "FUNCTION" => "function",
        "GROUP" => "group",
        "RECORD_LAYOUT" => "rl",
        "TRANSFORMER" => "tr",
        "UNIT" => "unit",
        _ => "other",
    }
}

fn gen_name(rng: &mut Rng) -> String {
    const FIRST: &[u8] = b"abABxXzZ_";
    const REST: &[u8] = b"abAB019_z.";
    let mut s = String::new();
    s.push(*rng.pick(FIRST) as char);
    let n = rng.below(4);
    for _ in 0..n {
        s.push(*rng.pick(REST) as char);
    }
    if s.ends_with('.') {
        s.push('a');
    }
    match rng.below(8) {
        0 => s.push_str("[0]"),
        1 => s.push_str("[10]"),
        2 => s.push_str(".x"),
        _ => {}
    }
    s
}

fn gen_string(rng: &mut Rng) -> String {
    match rng.below(10) {
        0 => "\"/begin MEASUREMENT x\"".to_string(),
        1 => "\"a /* no comment */ b\"".to_string(),
        2 => "\"http://x // y\"".to_string(),
        3 => "\"say \\\"hi\\\"\"".to_string(),
        4 => "\"\"".to_string(),
        5 => "\"/end MODULE\"".to_string(),
        _ => format!("\"text {}\"", rng.below(100)),
    }
}

fn inner_comment(rng: &mut Rng, n: &mut u32, line_ok: bool) -> String {
    *n += 1;
    if line_ok && rng.chance(1, 3) {
        format!("\n      // inner line comment {n}\n")
    } else {
        format!(" /* inner comment {n} */ ")
    }
}

fn gen_ifdata(rng: &mut Rng, tag_no: &mut u32, known_ok: bool) -> String {
    *tag_no += 1;
    if known_ok && rng.chance(1, 2) {
        if rng.chance(1, 2) {
            format!(
                "/begin IF_DATA VFA {} OPT {} /begin BLK \"b{}\" {} /end BLK /end IF_DATA",
                rng.below(1000),
                rng.below(10),
                tag_no,
                rng.below(10)
            )
        } else {
            format!(
                "/begin IF_DATA VFB /begin ITEM {} /end ITEM /begin ITEM {} /end ITEM FLAG /end IF_DATA",
                tag_no,
                rng.below(10)
            )
        }
    } else {
        format!(
            "/begin IF_DATA UNK{} {} 0x{:X} \"s\" /begin SUB {} /begin SUBSUB x /end SUBSUB /end SUB /end IF_DATA",
            tag_no,
            rng.below(100),
            rng.below(65536),
            rng.below(10)
        )
    }
}

const A2ML_TEXT: &str = r#"/begin A2ML
      block "IF_DATA" taggedunion if_data {
        "VFA" struct { uint; taggedstruct { "OPT" uint; block "BLK" struct { char[10]; uint; }; }; };
        "VFB" taggedstruct { (block "ITEM" struct { uint; })*; "FLAG"; };
      };
    /end A2ML"#;

struct Ctx {
    comment_no: u32,
    ifdata_no: u32,
    inner_ifdata: bool,
    inner_comments: bool,
}

/// text of one named element
fn gen_element(rng: &mut Rng, kind: &str, name: &str, ctx: &mut Ctx) -> String {
    let ld = gen_string(rng);
    let r1 = gen_name(rng);
    let r2 = gen_name(rng);
    let r3 = gen_name(rng);
    let addr = rng.below(0x10000);
    let mut opt: Vec<String> = vec![];
    let allows_ifdata = matches!(
        kind,
        "AXIS_PTS" | "BLOB" | "CHARACTERISTIC" | "FRAME" | "FUNCTION" | "GROUP" | "INSTANCE" | "MEASUREMENT"
    );
    if allows_ifdata && ctx.inner_ifdata && rng.chance(1, 3) {
        opt.push(gen_ifdata(rng, &mut ctx.ifdata_no, true));
    }
    let head = match kind {
        "AXIS_PTS" => {
            if rng.chance(1, 2) {
                opt.push("BYTE_ORDER MSB_LAST".to_string());
            }
            if rng.chance(1, 2) {
                opt.push("FORMAT \"%4.2\"".to_string());
            }
            format!("{name} {ld} 0x{addr:X} {r1} {r2} 0 {r3} {} 0 100", 1 + rng.below(9))
        }
        "BLOB" => format!("{name} {ld} 0x{addr:X} {}", rng.below(100)),
        "CHARACTERISTIC" => {
            if rng.chance(1, 3) {
                opt.push("BIT_MASK 0xF0".to_string());
            }
            if rng.chance(1, 3) {
                opt.push(format!(
                    "/begin ANNOTATION ANNOTATION_LABEL \"l\" /begin ANNOTATION_TEXT \"t{}\" /end ANNOTATION_TEXT /end ANNOTATION",
                    rng.below(9)
                ));
            }
            if rng.chance(1, 3) {
                opt.push("EXTENDED_LIMITS -100 200".to_string());
            }
            format!("{name} {ld} VALUE 0x{addr:X} {r1} 0 {r2} 0 {}", rng.below(1000))
        }
        "COMPU_METHOD" => {
            if rng.chance(1, 2) {
                opt.push("COEFFS_LINEAR 2 1".to_string());
            }
            if rng.chance(1, 3) {
                opt.push(format!("REF_UNIT {r1}"));
            }
            format!("{name} {ld} LINEAR \"%4.2\" \"unit\"")
        }
        "COMPU_TAB" => {
            if rng.chance(1, 2) {
                opt.push("DEFAULT_VALUE \"dflt\"".to_string());
            }
            format!("{name} {ld} TAB_INTP 2 1 22 2 33")
        }
        "COMPU_VTAB" => format!("{name} {ld} TAB_VERB 2 1 \"one\" 2 \"two\""),
        "COMPU_VTAB_RANGE" => format!("{name} {ld} 1 1 2 \"range\""),
        "FRAME" => {
            if rng.chance(1, 2) {
                opt.push(format!("FRAME_MEASUREMENT {r1} {r2}"));
            }
            format!("{name} {ld} {} {}", rng.below(10), rng.below(10))
        }
        "FUNCTION" => {
            if rng.chance(1, 2) {
                opt.push(format!("/begin DEF_CHARACTERISTIC {r1} {r2} /end DEF_CHARACTERISTIC"));
            }
            if rng.chance(1, 3) {
                opt.push("FUNCTION_VERSION \"1.0\"".to_string());
            }
            format!("{name} {ld}")
        }
        "GROUP" => {
            if rng.chance(1, 2) {
                opt.push("ROOT".to_string());
            }
            if rng.chance(1, 2) {
                opt.push(format!("/begin REF_MEASUREMENT {r1} {r2} /end REF_MEASUREMENT"));
            }
            format!("{name} {ld}")
        }
        "INSTANCE" => {
            if rng.chance(1, 3) {
                opt.push("MATRIX_DIM 3".to_string());
            }
            format!("{name} {ld} {r1} 0x{addr:X}")
        }
        "MEASUREMENT" => {
            if rng.chance(1, 2) {
                opt.push(format!("ECU_ADDRESS 0x{addr:X}"));
            }
            if rng.chance(1, 3) {
                opt.push("BIT_MASK 0xFF".to_string());
            }
            if rng.chance(1, 4) {
                opt.push("/begin BIT_OPERATION LEFT_SHIFT 1 /end BIT_OPERATION".to_string());
            }
            if rng.chance(1, 3) {
                opt.push("PHYS_UNIT \"km/h\"".to_string());
            }
            format!("{name} {ld} UBYTE {r1} 0 0 0 {}", rng.below(256))
        }
        "RECORD_LAYOUT" => {
            if rng.chance(1, 2) {
                opt.push("FNC_VALUES 1 UBYTE ROW_DIR DIRECT".to_string());
            }
            if rng.chance(1, 3) {
                opt.push("AXIS_PTS_X 2 SWORD INDEX_INCR DIRECT".to_string());
            }
            name.to_string()
        }
        "TRANSFORMER" => format!("{name} \"1.0\" \"dll32\" \"dll64\" 1 ON_CHANGE NO_INVERSE_TRANSFORMER"),
        "TYPEDEF_AXIS" => format!("{name} {ld} {r1} {r2} 0 {r3} 2 0 100"),
        "TYPEDEF_BLOB" => format!("{name} {ld} {}", rng.below(100)),
        "TYPEDEF_CHARACTERISTIC" => format!("{name} {ld} VALUE {r1} 0 {r2} 0 100"),
        "TYPEDEF_MEASUREMENT" => format!("{name} {ld} UBYTE {r1} 1 1 0 100"),
        "TYPEDEF_STRUCTURE" => {
            if rng.chance(1, 2) {
                opt.push(format!("/begin STRUCTURE_COMPONENT {r1} {r2} 0 /end STRUCTURE_COMPONENT"));
            }
            format!("{name} {ld} {}", rng.below(64))
        }
        "UNIT" => {
            if rng.chance(1, 3) {
                opt.push(format!("REF_UNIT {r1}"));
            }
            if rng.chance(1, 3) {
                opt.push("SI_EXPONENTS 1 2 3 4 5 6 7".to_string());
            }
            format!("{name} {ld} \"u\" DERIVED")
        }
        _ => unreachable!("kind {kind}"),
    };
    rng.shuffle(&mut opt);
    // `//` comments inside RECORD_LAYOUT (reordered child written behind the line comment, C01-4): repaired in /repo 6bcb276: generated and checked again
    let line_ok = true;
    let mut s = format!("/begin {kind} {head}");
    for o in opt {
        if ctx.inner_comments && rng.chance(1, 6) {
            s.push_str(&inner_comment(rng, &mut ctx.comment_no, line_ok));
        }
        s.push_str(if rng.chance(1, 2) { "\n      " } else { " " });
        s.push_str(&o);
    }
    if ctx.inner_comments && rng.chance(1, 8) {
        s.push_str(&inner_comment(rng, &mut ctx.comment_no, line_ok));
    }
    s.push_str(if rng.chance(1, 2) { "\n    " } else { " " });
    s.push_str(&format!("/end {kind}"));
    s
}

#[derive(Clone, Copy, PartialEq)]
enum A2mlPlace {
    None,
    First,
    Anywhere,
}

struct GenParams {
    modules: usize,
    max_elems: usize,
    comments: bool,
    inner_comments: bool,
    ifdata: bool,
    a2ml: A2mlPlace,
}

fn gen_module_chunks(rng: &mut Rng, p: &GenParams, ctx: &mut Ctx) -> Vec<String> {
    let mut chunks: Vec<String> = vec![];
    let n = rng.below(p.max_elems + 1);
    // a few kinds are favoured per module so that lists with several elements occur
    let mut favoured: Vec<&str> = vec![];
    for _ in 0..1 + rng.below(4) {
        favoured.push(*rng.pick(&LIST_KINDS[..]));
    }
    let mut used: HashSet<(String, String)> = HashSet::new();
    let mut pool: Vec<String> = vec![];
    for _ in 0..n {
        let kind: &str = if rng.chance(1, 2) { *rng.pick(&favoured[..]) } else { *rng.pick(&LIST_KINDS[..]) };
        // reuse a name of the pool (other name space) or make a new one
        let mut name = None;
        for _ in 0..8 {
            let cand = if !pool.is_empty() && rng.chance(1, 4) { rng.pick(&pool).clone() } else { gen_name(rng) };
            if !used.contains(&(namespace(kind).to_string(), cand.clone())) {
                name = Some(cand);
                break;
            }
        }
        let Some(name) = name else { continue };
        used.insert((namespace(kind).to_string(), name.clone()));
        pool.push(name.clone());
        chunks.push(gen_element(rng, kind, &name, ctx));
    }
    if rng.chance(1, 2) {
        chunks.push(format!("/begin MOD_COMMON {} BYTE_ORDER MSB_LAST /end MOD_COMMON", gen_string(rng)));
    }
    if rng.chance(1, 2) {
        chunks.push(format!(
            "/begin MOD_PAR {} CPU_TYPE \"x\"\n /begin MEMORY_SEGMENT seg \"\" DATA RAM EXTERN 0 0 0 0 0 0 0 /end MEMORY_SEGMENT /end MOD_PAR",
            gen_string(rng)
        ));
    }
    if rng.chance(1, 2) {
        // nested named lists of VARIANT_CODING in arbitrary (usually not alphabetical) order: sort() must leave the CONTENT of the
        // block alone (these items carry their own position information, which sort() does not renumber)
        let mut inner = String::new();
        let mut crit: Vec<String> = vec![];
        for _ in 0..rng.below(4) {
            let n = gen_name(rng);
            if !crit.contains(&n) {
                inner.push_str(&format!(" /begin VAR_CRITERION {n} {} v1 v2 /end VAR_CRITERION", gen_string(rng)));
                crit.push(n);
            }
        }
        let mut vch: Vec<String> = vec![];
        for _ in 0..rng.below(4) {
            let n = gen_name(rng);
            if !vch.contains(&n) {
                inner.push_str(&format!(" /begin VAR_CHARACTERISTIC {n} {} /end VAR_CHARACTERISTIC", crit.join(" ")));
                vch.push(n);
            }
        }
        chunks.push(format!("/begin VARIANT_CODING VAR_NAMING NUMERIC VAR_SEPARATOR \".\"{inner} /end VARIANT_CODING"));
    }
    if rng.chance(1, 2) {
        let mut ids = vec![];
        for _ in 0..1 + rng.below(3) {
            let id = gen_name(rng);
            if !ids.contains(&id) {
                chunks.push(format!(
                    "/begin USER_RIGHTS {id}{} /end USER_RIGHTS",
                    if rng.chance(1, 2) { " READ_ONLY" } else { "" }
                ));
                ids.push(id);
            }
        }
    }
    if p.ifdata {
        for _ in 0..rng.below(4) {
            chunks.push(gen_ifdata(rng, &mut ctx.ifdata_no, true));
        }
    }
    if p.comments {
        for _ in 0..rng.below(4) {
            ctx.comment_no += 1;
            if rng.chance(1, 3) {
                chunks.push(format!("// section {}\n", ctx.comment_no));
            } else {
                chunks.push(format!("/* section {} */", ctx.comment_no));
            }
        }
    }
    rng.shuffle(&mut chunks);
    match p.a2ml {
        A2mlPlace::None => {}
        A2mlPlace::First => chunks.insert(0, A2ML_TEXT.to_string()),
        A2mlPlace::Anywhere => {
            // CANDIDATE-FINDING C14-A2ML-1: if the A2ML block stands AFTER an IF_DATA of its module, that IF_DATA
            // is loaded uninterpreted; sort() moves A2ML to the front, so the written file loads with the IF_DATA
            // interpreted by the A2ML and `reloaded != sorted` (O3). Carved out: the A2ML is placed anywhere
            // before the first child that contains an IF_DATA.
            let limit = chunks.iter().position(|c| c.contains("IF_DATA")).unwrap_or(chunks.len());
            let at = rng.below(limit + 1);
            chunks.insert(at, A2ML_TEXT.to_string());
        }
    }
    chunks
}

fn sep(rng: &mut Rng) -> &'static str {
    match rng.below(6) {
        0 => "\n\n    ",
        1 => "\n",
        2 => "\n\t",
        3 => " ",
        _ => "\n    ",
    }
}

fn assemble_module(rng: &mut Rng, name: &str, chunks: &[String]) -> String {
    let mut s = format!("  /begin MODULE {name} {}", gen_string(rng));
    for c in chunks {
        // a line comment must end its line; the separator after it starts with a newline anyway
        s.push_str(if s.ends_with('\n') { "    " } else { sep(rng) });
        s.push_str(c);
    }
    s.push_str("\n  /end MODULE\n");
    s
}

fn assemble_file(rng: &mut Rng, modules: &[String], header: bool, versions: u8) -> String {
    let mut s = String::new();
    if versions >= 1 {
        s.push_str("ASAP2_VERSION 1 71\n");
    }
    if versions >= 2 {
        s.push_str("A2ML_VERSION 1 31\n");
    }
    s.push_str(&format!("/begin PROJECT prj {}\n", gen_string(rng)));
    let mut parts: Vec<String> = modules.to_vec();
    if header {
        let h = "  /begin HEADER \"hdr\" VERSION \"v1\" /end HEADER\n".to_string();
        // the HEADER is not necessarily the first child
        let at = if rng.chance(3, 4) { 0 } else { rng.below(parts.len() + 1) };
        parts.insert(at, h);
    }
    for p in parts {
        s.push_str(&p);
    }
    s.push_str("/end PROJECT\n");
    s
}

fn gen_file(rng: &mut Rng, p: &GenParams) -> String {
    let mut ctx = Ctx {
        comment_no: 0,
        ifdata_no: 0,
        inner_ifdata: p.ifdata,
        inner_comments: p.inner_comments,
    };
    let mut names: Vec<String> = vec![];
    while names.len() < p.modules {
        let n = gen_name(rng);
        if !names.contains(&n) {
            names.push(n);
        }
    }
    let mut modules = vec![];
    // CANDIDATE-FINDING C14-A2ML-2: an A2ML block also applies to the IF_DATA of all FOLLOWING modules. sort()
    // orders the modules by name, so a module without A2ML can move in front of the module whose A2ML its IF_DATA
    // were loaded with (or behind it), and `reloaded != sorted` (O3). Carved out: within one file either every
    // module has the A2ML block or none (GenParams.a2ml is per file).
    for n in &names {
        let chunks = gen_module_chunks(rng, p, &mut ctx);
        modules.push(assemble_module(rng, n, &chunks));
    }
    let header = rng.chance(1, 2);
    let versions = rng.below(3) as u8;
    assemble_file(rng, &modules, header, versions)
}

// ------------------------------------------------------------------------------------------------ oracle

const KIND_ORDER: [&str; 26] = [
    "A2ML",
    "MOD_COMMON",
    "MOD_PAR",
    "IF_DATA",
    "CHARACTERISTIC",
    "MEASUREMENT",
    "AXIS_PTS",
    "INSTANCE",
    "BLOB",
    "COMPU_METHOD",
    "COMPU_TAB",
    "COMPU_VTAB",
    "COMPU_VTAB_RANGE",
    "TYPEDEF_STRUCTURE",
    "TYPEDEF_CHARACTERISTIC",
    "TYPEDEF_MEASUREMENT",
    "TYPEDEF_AXIS",
    "TYPEDEF_BLOB",
    "FRAME",
    "FUNCTION",
    "GROUP",
    "RECORD_LAYOUT",
    "TRANSFORMER",
    "UNIT",
    "USER_RIGHTS",
    "VARIANT_CODING",
];

fn rank(kind: &str) -> Option<usize> {
    KIND_ORDER.iter().position(|k| *k == kind)
}

fn same_list<T: A2lObjectName + PartialEq>(
    what: &str,
    module: &str,
    before: &ItemList<T>,
    after: &ItemList<T>,
) -> Result<(), Failure> {
    let mut b: Vec<&T> = before.iter().collect();
    b.sort_by(|x, y| x.get_name().cmp(y.get_name())); // the model's own sort
    let a: Vec<&T> = after.iter().collect();
    let bn: Vec<&str> = b.iter().map(|x| x.get_name()).collect();
    let an: Vec<&str> = a.iter().map(|x| x.get_name()).collect();
    if bn != an {
        return failure(
            "O1-list-names",
            format!("module {module} {what}: names {bn:?}"),
            format!("{an:?}"),
        );
    }
    for (x, y) in b.iter().zip(a.iter()) {
        if x != y {
            return failure(
                "O1-list-content",
                format!("module {module} {what} {}: content unchanged", x.get_name()),
                "content differs".to_string(),
            );
        }
    }
    Ok(())
}

macro_rules! all_lists {
    ($mac:ident, $($arg:tt)*) => {
        $mac!(axis_pts, $($arg)*);
        $mac!(blob, $($arg)*);
        $mac!(characteristic, $($arg)*);
        $mac!(compu_method, $($arg)*);
        $mac!(compu_tab, $($arg)*);
        $mac!(compu_vtab, $($arg)*);
        $mac!(compu_vtab_range, $($arg)*);
        $mac!(frame, $($arg)*);
        $mac!(function, $($arg)*);
        $mac!(group, $($arg)*);
        $mac!(instance, $($arg)*);
        $mac!(measurement, $($arg)*);
        $mac!(record_layout, $($arg)*);
        $mac!(transformer, $($arg)*);
        $mac!(typedef_axis, $($arg)*);
        $mac!(typedef_blob, $($arg)*);
        $mac!(typedef_characteristic, $($arg)*);
        $mac!(typedef_measurement, $($arg)*);
        $mac!(typedef_structure, $($arg)*);
        $mac!(unit, $($arg)*);
    };
}

fn check_only_reorders(before: &A2lFile, after: &A2lFile) -> Result<(), Failure> {
    if before.asap2_version != after.asap2_version || before.a2ml_version != after.a2ml_version {
        return failure("O1-versions", "ASAP2_VERSION / A2ML_VERSION unchanged", "changed");
    }
    if before.project.get_name() != after.project.get_name()
        || before.project.long_identifier != after.project.long_identifier
        || before.project.header != after.project.header
    {
        return failure("O1-project", "PROJECT name / HEADER unchanged", "changed");
    }
    let mut bm: Vec<&Module> = before.project.module.iter().collect();
    bm.sort_by(|x, y| x.get_name().cmp(y.get_name()));
    let am: Vec<&Module> = after.project.module.iter().collect();
    let bn: Vec<&str> = bm.iter().map(|m| m.get_name()).collect();
    let an: Vec<&str> = am.iter().map(|m| m.get_name()).collect();
    if bn != an {
        return failure("O1-modules", format!("modules {bn:?}"), format!("{an:?}"));
    }
    for (b, a) in bm.iter().zip(am.iter()) {
        let mname = b.get_name();
        macro_rules! one {
            ($f:ident, $b:expr, $a:expr) => {
                same_list(stringify!($f), mname, &$b.$f, &$a.$f)?;
            };
        }
        all_lists!(one, b, a);
        if b.long_identifier != a.long_identifier
            || b.a2ml != a.a2ml
            || b.mod_common != a.mod_common
            || b.mod_par != a.mod_par
            || b.variant_coding != a.variant_coding
        {
            return failure(
                "O1-optional",
                format!("module {mname}: A2ML / MOD_COMMON / MOD_PAR / VARIANT_CODING unchanged"),
                "changed",
            );
        }
        if b.if_data != a.if_data {
            return failure("O1-ifdata", format!("module {mname}: IF_DATA unchanged, same order"), "changed");
        }
        let mut ur: Vec<&UserRights> = b.user_rights.iter().collect();
        ur.sort_by(|x, y| x.user_level_id.cmp(&y.user_level_id)); // stable
        let ua: Vec<&UserRights> = a.user_rights.iter().collect();
        if ur != ua {
            return failure(
                "O1-user-rights",
                format!("module {mname}: USER_RIGHTS the same, ordered by user level id"),
                "changed",
            );
        }
    }
    Ok(())
}

/// O2 on the scan of the written sorted text; `before`: scan of the text written before sorting
fn check_written_order(before: &Scan, after: &Scan) -> Result<(), Failure> {
    // PROJECT level: HEADER first, then the modules by name
    let mut want: Vec<(String, String)> = before.project.clone();
    want.sort_by(|x, y| {
        let kx = if x.0 == "HEADER" { 0 } else { 1 };
        let ky = if y.0 == "HEADER" { 0 } else { 1 };
        kx.cmp(&ky).then(x.1.cmp(&y.1))
    });
    if want != after.project {
        return failure(
            "O2-project-order",
            format!("children of PROJECT {want:?}"),
            format!("{:?}", after.project),
        );
    }
    for am in &after.modules {
        let bm = before.modules.iter().find(|m| m.name == am.name).unwrap();
        let mname = &am.name;
        // every element block is still there, token-identical; nothing was added
        let mut btexts: BTreeMap<(String, String), &str> = BTreeMap::new();
        for it in bm.items.iter().filter(|it| it.kind != "COMMENT") {
            btexts.insert((it.kind.clone(), it.ident.clone()), &it.text);
        }
        let mut atexts: BTreeMap<(String, String), &str> = BTreeMap::new();
        for it in &am.items {
            if it.kind == "COMMENT" {
                return failure(
                    "O2-stray-comment",
                    format!("module {mname}: no section comment between the sorted elements"),
                    format!("comment {:?} is still written", it.ident),
                );
            }
            atexts.insert((it.kind.clone(), it.ident.clone()), &it.text);
        }
        if btexts.len() != bm.items.iter().filter(|it| it.kind != "COMMENT").count() {
            return failure("generator", "unique (kind, ident) per module", "duplicate");
        }
        if atexts.len() != am.items.len() {
            return failure(
                "O1-text-duplicate",
                format!("module {mname}: every element written once"),
                "an element is written twice",
            );
        }
        if btexts != atexts {
            let missing: Vec<_> = btexts.keys().filter(|k| !atexts.contains_key(*k)).collect();
            let added: Vec<_> = atexts.keys().filter(|k| !btexts.contains_key(*k)).collect();
            let changed: Vec<_> = btexts
                .iter()
                .filter(|(k, v)| atexts.get(*k).map_or(false, |w| w != *v))
                .map(|(k, _)| k)
                .collect();
            return failure(
                "O1-text",
                format!("module {mname}: written element blocks identical (token by token) before and after sort()"),
                format!("missing {missing:?} added {added:?} changed {changed:?}"),
            );
        }
        // grouped by kind in the documented order, ascending names within a kind
        let mut prev: Option<&Item> = None;
        for it in &am.items {
            let Some(r) = rank(&it.kind) else {
                return failure("generator", "known kinds", format!("kind {}", it.kind));
            };
            if let Some(p) = prev {
                let rp = rank(&p.kind).unwrap();
                if rp > r {
                    return failure(
                        "O2-kind-order",
                        format!("module {mname}: {} after {} (kinds grouped, documented order)", p.kind, it.kind),
                        format!("{} {} is written before {} {}", p.kind, p.ident, it.kind, it.ident),
                    );
                }
                if rp == r && it.kind != "IF_DATA" && p.ident.as_bytes() >= it.ident.as_bytes() {
                    return failure(
                        "O2-name-order",
                        format!("module {mname}: {} ascending by name", it.kind),
                        format!("{} is written before {}", p.ident, it.ident),
                    );
                }
            }
            prev = Some(it);
        }
        // IF_DATA of the module keep their order
        let bi: Vec<&str> = bm.items.iter().filter(|i| i.kind == "IF_DATA").map(|i| i.text.as_str()).collect();
        let ai: Vec<&str> = am.items.iter().filter(|i| i.kind == "IF_DATA").map(|i| i.text.as_str()).collect();
        if bi != ai {
            return failure("O2-ifdata-order", format!("module {mname}: IF_DATA in their old order"), "reordered");
        }
    }
    Ok(())
}

fn sequence(s: &Scan) -> Vec<(String, Vec<(String, String)>)> {
    s.modules
        .iter()
        .map(|m| {
            (
                m.name.clone(),
                m.items.iter().map(|i| (i.kind.clone(), i.ident.clone())).collect(),
            )
        })
        .collect()
}

/// the whole property on one input text. Ok(n) = number of warnings of the first load (generator hygiene)
fn check_input(text: &str) -> Result<u64, Failure> {
    let (before, log) = match load_from_string(text, None, false) {
        Ok(x) => x,
        Err(e) => return failure("gen-load", "the generated file loads", format!("{e}")),
    };
    if std::env::var("VF_DEBUG").is_ok() {
        for l in &log {
            println!("DEBUG warning: {l}");
        }
    }
    let text_before = before.write_to_string();
    let scan_before = match scan(&text_before) {
        Ok(s) => s,
        Err(e) => return failure("scan", "written text has balanced blocks", e),
    };
    let mut after = before.clone();
    after.sort();
    check_only_reorders(&before, &after)?;
    let text_after = after.write_to_string();
    let scan_after = match scan(&text_after) {
        Ok(s) => s,
        Err(e) => return failure("scan", "written sorted text has balanced blocks", e),
    };
    check_written_order(&scan_before, &scan_after)?;

    // O3 reload
    let (reloaded, _) = match load_from_string(&text_after, None, false) {
        Ok(x) => x,
        Err(e) => return failure("O3-reload", "the sorted text loads", format!("{e}")),
    };
    if reloaded != after {
        // find the first difference for the message
        let mut what = "model differs".to_string();
        for (a, r) in after.project.module.iter().zip(reloaded.project.module.iter()) {
            if a != r {
                what = format!("module {} differs from reloaded module {}", a.get_name(), r.get_name());
                macro_rules! one {
                    ($f:ident, $a:expr, $r:expr) => {
                        if $a.$f != $r.$f {
                            what.push_str(concat!(" [", stringify!($f), "]"));
                        }
                    };
                }
                all_lists!(one, a, r);
                if a.if_data != r.if_data {
                    what.push_str(" [if_data]");
                }
                break;
            }
        }
        return failure("O3-reload-equal", "reloaded model == sorted model (same order)", what);
    }
    let text_reloaded = reloaded.write_to_string();
    let scan_reloaded = match scan(&text_reloaded) {
        Ok(s) => s,
        Err(e) => return failure("scan", "rewritten text has balanced blocks", e),
    };
    if sequence(&scan_reloaded) != sequence(&scan_after) {
        return failure("O3-reload-order", "reloaded file is written in the same order", "order differs");
    }

    // O4 second sort
    let mut again = after.clone();
    again.sort();
    if again != after {
        return failure("O4-idempotent-model", "second sort() leaves the model unchanged", "model changed");
    }
    let text_again = again.write_to_string();
    if text_again != text_after {
        return failure(
            "O4-idempotent-text",
            "second sort() leaves the written text unchanged",
            "text changed",
        );
    }
    let mut reloaded_sorted = reloaded.clone();
    reloaded_sorted.sort();
    if reloaded_sorted != after {
        return failure("O4-reload-sort", "sorting the reloaded model changes nothing", "model changed");
    }
    match scan(&reloaded_sorted.write_to_string()) {
        Ok(s) if sequence(&s) == sequence(&scan_after) => {}
        _ => return failure("O4-reload-sort-order", "sorting the reloaded model moves nothing", "order differs"),
    }
    // files without ASAP2_VERSION are treated as version 1.5.1 and produce version warnings: not counted
    Ok(log.iter().filter(|l| !l.to_string().contains("ersion")).count() as u64)
}

fn run_case(rep: &mut Report, text: String) {
    rep.cases += 1;
    rep.distinct.insert(fnv(&text));
    let t2 = text.clone();
    match guarded(20, move || check_input(&t2)) {
        Ok(Ok(w)) => rep.warnings += w,
        Ok(Err(f)) => rep.fail(&f.case, &f.expected, &f.happened, &text),
        Err(e) => {
            let case = if e == "timeout" { "timeout" } else { "panic" };
            rep.fail(case, "sort / write / load return", &e, &text);
        }
    }
}

// ------------------------------------------------------------------------------------------------ small scope

fn permutations(n: usize) -> Vec<Vec<usize>> {
    // Heap's algorithm
    let mut out = vec![];
    let mut a: Vec<usize> = (0..n).collect();
    let mut c = vec![0; n];
    out.push(a.clone());
    let mut i = 0;
    while i < n {
        if c[i] < i {
            if i % 2 == 0 {
                a.swap(0, i);
            } else {
                a.swap(c[i], i);
            }
            out.push(a.clone());
            c[i] += 1;
            i = 0;
        } else {
            c[i] = 0;
            i += 1;
        }
    }
    out
}

fn small_scope(rep: &mut Report, thorough: bool) {
    let chunks: Vec<&str> = vec![
        "/begin MEASUREMENT b \"\" UBYTE NO_COMPU_METHOD 0 0 0 255 /* in b */ /end MEASUREMENT",
        "/begin CHARACTERISTIC a \"\" VALUE 0x0 RL 0 NO_COMPU_METHOD 0 255 /end CHARACTERISTIC",
        "/begin MEASUREMENT a.1 \"\" UBYTE NO_COMPU_METHOD 0 0 0 255 /end MEASUREMENT",
        "/begin COMPU_METHOD b \"\" IDENTICAL \"%4.2\" \"\" /end COMPU_METHOD",
        "/* section */",
        "/begin BLOB B \"\" 0x10 4 /end BLOB",
        "/begin IF_DATA UNK1 1 2 /end IF_DATA",
        "/begin MEASUREMENT a \"\" UBYTE NO_COMPU_METHOD 0 0 0 255 /end MEASUREMENT",
        "/begin UNIT b \"\" \"u\" DERIVED /end UNIT",
        "/begin CHARACTERISTIC Z \"\" VALUE 0x0 RL 0 NO_COMPU_METHOD 0 255 /end CHARACTERISTIC",
    ];
    let n = if thorough { 7 } else { 6 };
    let front = [
        "",
        "/begin MOD_PAR \"\" /end MOD_PAR /begin A2ML block \"IF_DATA\" struct { int; }; /end A2ML /begin MOD_COMMON \"\" /end MOD_COMMON",
    ];
    for (v, f) in front.iter().enumerate() {
        // variant 0 uses the first n chunks, variant 1 the last n
        let sel: Vec<&str> = if v == 0 { chunks[..n].to_vec() } else { chunks[chunks.len() - n..].to_vec() };
        for perm in permutations(n) {
            let mut s = String::from("ASAP2_VERSION 1 71\n/begin PROJECT P \"\"\n  /begin MODULE M \"\"\n");
            // the front elements are placed in the middle of the module
            for (k, &i) in perm.iter().enumerate() {
                if k == n / 2 && !f.is_empty() {
                    s.push_str("    ");
                    s.push_str(f);
                    s.push('\n');
                }
                s.push_str("    ");
                s.push_str(sel[i]);
                s.push('\n');
            }
            s.push_str("  /end MODULE\n/end PROJECT\n");
            run_case(rep, s);
            if rep.failures >= 50 {
                return;
            }
        }
    }
}

// ------------------------------------------------------------------------------------------------ main

#[test]
fn vf_driver_c14() {
    let budget = std::env::var("VF_BUDGET").unwrap_or_else(|_| "quick".to_string());
    let thorough = budget == "thorough";
    let budget = if thorough { "thorough" } else { "quick" };
    let seed: u64 = std::env::var("VF_SEED").ok().and_then(|s| s.parse().ok()).unwrap_or(1);
    let old_hook = std::panic::take_hook();
    std::panic::set_hook(Box::new(|_| {}));

    let mut rep = Report {
        cases: 0,
        distinct: HashSet::new(),
        failures: 0,
        printed: HashSet::new(),
        warnings: 0,
    };
    let t0 = Instant::now();
    small_scope(&mut rep, thorough);
    println!(
        "DRIVER-NOTE property={PID} part=small-scope cases={} t={:.1}s",
        rep.cases,
        t0.elapsed().as_secs_f32()
    );

    let t1 = Instant::now();
    // fixed number of files (deterministic for a seed); the time limit is only a safety cap
    let max_cases: u64 = if thorough { 40000 } else { 600 };
    let limit = Duration::from_secs(if thorough { 270 } else { 9 });
    let mut rng = Rng::new(seed);
    let mut n = 0u64;
    while n < max_cases && t1.elapsed() < limit && rep.failures < 50 {
        let size_class = n % 8;
        let p = GenParams {
            modules: match size_class {
                0 | 1 => 1,
                7 => 3,
                _ => 1 + rng.below(3),
            },
            max_elems: match size_class {
                0 => 4,
                1 => 12,
                7 => 120,
                _ => 40,
            },
            comments: rng.chance(2, 3),
            inner_comments: rng.chance(1, 2),
            ifdata: rng.chance(2, 3),
            a2ml: match rng.below(3) {
                0 => A2mlPlace::None,
                1 => A2mlPlace::First,
                _ => A2mlPlace::Anywhere,
            },
        };
        let text = gen_file(&mut rng, &p);
        run_case(&mut rep, text);
        n += 1;
    }
    println!(
        "DRIVER-NOTE property={PID} part=random cases={n} warnings={} t={:.1}s",
        rep.warnings,
        t1.elapsed().as_secs_f32()
    );
    std::panic::set_hook(old_hook);
    println!(
        "DRIVER-SUMMARY property={PID} cases={} distinct={} failures={} budget={budget} seed={seed}",
        rep.cases,
        rep.distinct.len(),
        rep.failures
    );
    assert!(rep.failures == 0, "{PID}: {} failing cases", rep.failures);
}
