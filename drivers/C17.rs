// vf driver for property C17: "The loaded model does not depend on the file's text encoding"
// bounded stand-in / counterexample finder - see /verif/drivers/README.md and /verif/drivers/notes/C17.md
//
// Oracle: a document (first character ASCII) encoded with an independent encoder as UTF-8, UTF-8+BOM, UTF-16LE/BE and
// UTF-32LE/BE with and without BOM and written to a temp file gives, through load(path), the same result as
// load_from_string(text): equal model, equal written text (strings and comments), equal number of diagnostics, or the same
// error.  Bytes that are not valid UTF-8 (and are no UTF-16/32 candidates) are read as Latin-1.  Arbitrary byte strings:
// the call returns (thread + 5 s watchdog + catch_unwind).
// ===================================================================================================
// common part (identical in C03.rs / C16.rs / C17.rs): PRNG, budget, guarded execution, reporting,
// document tree + base documents. std + public API of the crate only.
// ===================================================================================================
#![allow(dead_code)]
#![allow(clippy::all)]

use std::panic::{catch_unwind, AssertUnwindSafe};
use std::path::{Path, PathBuf};
use std::sync::mpsc::{channel, Receiver, RecvTimeoutError, Sender};
use std::sync::Mutex;
use std::time::{Duration, Instant};

// ---------------------------------------------------------------------------------------------------
// PRNG (splitmix64), budget, seed
// ---------------------------------------------------------------------------------------------------
pub struct Rng(u64);
impl Rng {
    pub fn new(seed: u64) -> Self {
        Rng(seed.wrapping_mul(0x9E37_79B9_7F4A_7C15) ^ 0xD1B5_4A32_D192_ED03)
    }
    pub fn next(&mut self) -> u64 {
        self.0 = self.0.wrapping_add(0x9E37_79B9_7F4A_7C15);
        let mut z = self.0;
        z = (z ^ (z >> 30)).wrapping_mul(0xBF58_476D_1CE4_E5B9);
        z = (z ^ (z >> 27)).wrapping_mul(0x94D0_49BB_1331_11EB);
        z ^ (z >> 31)
    }
    pub fn below(&mut self, n: usize) -> usize {
        if n == 0 {
            0
        } else {
            (self.next() % (n as u64)) as usize
        }
    }
    pub fn chance(&mut self, num: usize, den: usize) -> bool {
        self.below(den) < num
    }
    pub fn pick<'a, T>(&mut self, items: &'a [T]) -> &'a T {
        &items[self.below(items.len())]
    }
}

pub fn env_seed() -> u64 {
    std::env::var("VF_SEED")
        .ok()
        .and_then(|s| s.trim().parse::<u64>().ok())
        .unwrap_or(1)
}

pub fn env_thorough() -> bool {
    matches!(std::env::var("VF_BUDGET").ok().as_deref(), Some("thorough"))
}

// ---------------------------------------------------------------------------------------------------
// guarded execution: every library call runs on a worker thread, panics are caught with
// catch_unwind, a watchdog of WATCHDOG seconds detects hangs (the hung thread is abandoned and a
// fresh worker is started).
// ---------------------------------------------------------------------------------------------------
pub const WATCHDOG: Duration = Duration::from_secs(5);
const WORKER_NAME: &str = "vf-worker";
const WORKER_STACK: usize = 64 * 1024 * 1024;

static LAST_PANIC: Mutex<Option<String>> = Mutex::new(None);

pub fn install_panic_hook() {
    let default_hook = std::panic::take_hook();
    std::panic::set_hook(Box::new(move |info| {
        let is_worker = std::thread::current().name() == Some(WORKER_NAME);
        if is_worker {
            // keep the message (with source location) for the report, stay silent on stderr
            if let Ok(mut slot) = LAST_PANIC.lock() {
                *slot = Some(info.to_string().replace('\n', " "));
            }
        } else {
            default_hook(info);
        }
    }));
}

pub enum Guarded<T> {
    Done(T),
    Panicked(String),
    Timeout,
}

type Job<T> = Box<dyn FnOnce() -> T + Send + 'static>;

pub struct Worker<T: Send + 'static> {
    tx: Sender<Job<T>>,
    rx: Receiver<Result<T, String>>,
    pub timeouts: usize,
}

impl<T: Send + 'static> Worker<T> {
    pub fn new() -> Self {
        let (tx, rx) = Self::spawn();
        Worker { tx, rx, timeouts: 0 }
    }

    fn spawn() -> (Sender<Job<T>>, Receiver<Result<T, String>>) {
        let (job_tx, job_rx) = channel::<Job<T>>();
        let (res_tx, res_rx) = channel::<Result<T, String>>();
        std::thread::Builder::new()
            .name(WORKER_NAME.to_string())
            .stack_size(WORKER_STACK)
            .spawn(move || {
                while let Ok(job) = job_rx.recv() {
                    let result = catch_unwind(AssertUnwindSafe(job)).map_err(|payload| {
                        let from_hook = LAST_PANIC.lock().ok().and_then(|mut s| s.take());
                        from_hook.unwrap_or_else(|| {
                            if let Some(s) = payload.downcast_ref::<&str>() {
                                (*s).to_string()
                            } else if let Some(s) = payload.downcast_ref::<String>() {
                                s.clone()
                            } else {
                                "panic (unknown payload)".to_string()
                            }
                        })
                    });
                    if res_tx.send(result).is_err() {
                        break;
                    }
                }
            })
            .expect("cannot spawn worker thread");
        (job_tx, res_rx)
    }

    pub fn run<F>(&mut self, job: F) -> Guarded<T>
    where
        F: FnOnce() -> T + Send + 'static,
    {
        if self.tx.send(Box::new(job)).is_err() {
            // worker died unexpectedly: restart and report as panic
            let (tx, rx) = Self::spawn();
            self.tx = tx;
            self.rx = rx;
            return Guarded::Panicked("worker thread terminated".to_string());
        }
        match self.rx.recv_timeout(WATCHDOG) {
            Ok(Ok(v)) => Guarded::Done(v),
            Ok(Err(msg)) => Guarded::Panicked(msg),
            Err(RecvTimeoutError::Timeout) => {
                // abandon the hung thread, start a fresh one
                self.timeouts += 1;
                let (tx, rx) = Self::spawn();
                self.tx = tx;
                self.rx = rx;
                Guarded::Timeout
            }
            Err(RecvTimeoutError::Disconnected) => {
                let (tx, rx) = Self::spawn();
                self.tx = tx;
                self.rx = rx;
                Guarded::Panicked("worker thread terminated".to_string())
            }
        }
    }
}

// ---------------------------------------------------------------------------------------------------
// reporting
// ---------------------------------------------------------------------------------------------------
pub fn json_escape(s: &str) -> String {
    let mut out = String::with_capacity(s.len() + 2);
    out.push('"');
    for c in s.chars() {
        match c {
            '"' => out.push_str("\\\""),
            '\\' => out.push_str("\\\\"),
            '\n' => out.push_str("\\n"),
            '\r' => out.push_str("\\r"),
            '\t' => out.push_str("\\t"),
            c if (c as u32) < 0x20 || c == '\u{7f}' => out.push_str(&format!("\\u{:04x}", c as u32)),
            c => out.push(c),
        }
    }
    out.push('"');
    out
}

pub fn json_escape_bytes(b: &[u8]) -> String {
    // bytes are shown as a Latin-1 string (every byte one char), which is lossless
    let s: String = b.iter().map(|x| *x as char).collect();
    json_escape(&s)
}

pub struct Report {
    pub pid: &'static str,
    pub cases: u64,
    pub failures: u64,
    pub printed: usize,
    pub seen_kinds: Vec<String>,
    pub distinct_inputs: std::collections::HashSet<u64>,
    pub thorough: bool,
    pub seed: u64,
    pub started: Instant,
}

pub fn fnv(data: &[u8]) -> u64 {
    let mut h: u64 = 0xcbf29ce484222325;
    for b in data {
        h ^= *b as u64;
        h = h.wrapping_mul(0x100000001b3);
    }
    h
}

impl Report {
    pub fn new(pid: &'static str) -> Self {
        Report {
            pid,
            cases: 0,
            failures: 0,
            printed: 0,
            seen_kinds: Vec::new(),
            distinct_inputs: std::collections::HashSet::new(),
            thorough: env_thorough(),
            seed: env_seed(),
            started: Instant::now(),
        }
    }

    pub fn case(&mut self, input: &[u8]) {
        self.cases += 1;
        self.distinct_inputs.insert(fnv(input));
    }

    /// `kind` identifies the distinct failing case (one line per kind, at most 5 lines)
    pub fn fail(&mut self, case: &str, kind: &str, expected: &str, happened: &str, input_json: &str) {
        self.failures += 1;
        if std::env::var("VF_DEBUG").is_ok() {
            eprintln!("[debug] failure case={} kind={} :: {} :: {}", case, kind, expected, &happened.chars().take(300).collect::<String>());
        }
        let key = kind.to_string();
        if !self.seen_kinds.contains(&key) {
            self.seen_kinds.push(key);
            if self.printed < 5 {
                self.printed += 1;
                let mut inp = input_json.to_string();
                if inp.len() > 6000 {
                    let mut cut = 6000;
                    while !inp.is_char_boundary(cut) {
                        cut -= 1;
                    }
                    inp.truncate(cut);
                    inp.push_str("...(truncated)\"");
                }
                println!(
                    "FAILING-INPUT property={} case={} :: {} :: {} :: {}",
                    self.pid, case, expected, happened, inp
                );
            }
        }
    }

    pub fn summary(&self) {
        println!(
            "DRIVER-SUMMARY property={} cases={} distinct={} failures={} budget={} seed={}",
            self.pid,
            self.cases,
            self.distinct_inputs.len(),
            self.failures,
            if self.thorough { "thorough" } else { "quick" },
            self.seed
        );
        eprintln!(
            "[{}] run time {:.2} s",
            self.pid,
            self.started.elapsed().as_secs_f64()
        );
    }
}

// ---------------------------------------------------------------------------------------------------
// scratch directory below std::env::temp_dir(), removed on drop
// ---------------------------------------------------------------------------------------------------
pub struct Scratch {
    pub root: PathBuf,
}
impl Scratch {
    pub fn new(tag: &str) -> Self {
        let root = std::env::temp_dir().join(format!(
            "vf_driver_{}_{}_{}",
            tag,
            std::process::id(),
            env_seed()
        ));
        let _ = std::fs::remove_dir_all(&root);
        std::fs::create_dir_all(&root).expect("cannot create scratch dir");
        Scratch { root }
    }
    pub fn path(&self, rel: &str) -> PathBuf {
        self.root.join(rel)
    }
}
impl Drop for Scratch {
    fn drop(&mut self) {
        let _ = std::fs::remove_dir_all(&self.root);
    }
}

pub fn write_file(path: &Path, data: &[u8]) {
    if let Some(parent) = path.parent() {
        let _ = std::fs::create_dir_all(parent);
    }
    std::fs::write(path, data).expect("cannot write scratch file");
}

// ---------------------------------------------------------------------------------------------------
// document tree.  A document is a list of items; an item is a keyword line (leaf) or a block with a
// head ("/begin TAG positional parameters"), child items (optional keywords / sub-blocks) and the
// tail ("/end TAG").  Children are the *element boundaries* of the format.
// ---------------------------------------------------------------------------------------------------
#[derive(Clone, Debug)]
pub enum It {
    /// keyword with its parameters (or a comment), e.g. `ECU_ADDRESS 0x1234`
    L(String),
    /// block: head, children, tail
    B(String, Vec<It>, String),
    /// raw text that must stay in one piece and is not an element (A2ML text)
    Raw(String),
    /// (C16) children that live in an include file: (directive text as written, relative file path from the
    /// directory of the including file using '/', children)
    Inc(String, String, Vec<It>),
}

pub fn l(s: &str) -> It {
    It::L(s.to_string())
}
pub fn b(tag_and_params: &str, kids: Vec<It>) -> It {
    let tag = tag_and_params.split_whitespace().next().unwrap().to_string();
    It::B(format!("/begin {}", tag_and_params), kids, format!("/end {}", tag))
}

/// render with all includes flattened (the reference text)
pub fn render_flat(items: &[It], indent: usize, nl: &str, out: &mut String) {
    for it in items {
        match it {
            It::L(s) | It::Raw(s) => {
                for _ in 0..indent {
                    out.push_str("  ");
                }
                out.push_str(s);
                out.push_str(nl);
            }
            It::B(head, kids, tail) => {
                for _ in 0..indent {
                    out.push_str("  ");
                }
                out.push_str(head);
                out.push_str(nl);
                render_flat(kids, indent + 1, nl, out);
                for _ in 0..indent {
                    out.push_str("  ");
                }
                out.push_str(tail);
                out.push_str(nl);
            }
            It::Inc(_, _, kids) => render_flat(kids, indent, nl, out),
        }
    }
}

pub fn flat(items: &[It]) -> String {
    let mut s = String::new();
    render_flat(items, 0, "\n", &mut s);
    s
}

// ---------------------------------------------------------------------------------------------------
// base documents
// ---------------------------------------------------------------------------------------------------

/// A2ML used by document A (also usable as the `a2ml_spec` argument)
pub const A2ML_A: &str = r#"
      /* interface description */
      struct Pair {
        uint;  /* first */
        ulong; // second
      };
      taggedstruct Opts {
        "FLAG";
        "LEVEL" uchar;
        ("ITEM" struct { char[20]; int; })*;
        block "SEG" struct { ulong; ulong; taggedstruct { "ATTR" enum { "RO" = 0, "RW" = 1, "XX" }; }; };
        (block "REP" long)*;
      };
      block "IF_DATA" taggedunion if_data {
        "VFT" struct {
          taggedstruct Opts;
          taggedstruct { block "CHK" ( struct Pair )*; };
        };
        "RAW" struct { int64; uint64; float; double; char; int; long; uchar; };
        block "BLK" struct { char[32]; taggedstruct { "N" (uint)*; }; };
      };
      // end of A2ML"#;

pub const A2ML_INVALID: &[&str] = &[
    "\"",
    "lorem ipsum",
    "block \"IF_DATA\" (taggedstruct { \"X\" int; ",
    "block \"IF_DATA\" struct { int; } /* unclosed",
    "/include",
    "block \"IF_DATA\" taggedunion { \"X\" struct Undefined; };",
];

/// Document A: A2ML + conforming IF_DATA, comments between tokens, multi-byte text, negative / hex / float numbers
pub fn doc_a() -> Vec<It> {
    vec![
        l("/* généré: Ünïcödé \u{20ac} \u{1F600} banner */"),
        l("ASAP2_VERSION 1 71"),
        l("A2ML_VERSION 1 31"),
        b(
            "PROJECT prj \"projet \u{e9}t\u{e9} \u{20ac}\"",
            vec![
                b(
                    "HEADER \"header \\\"quoted\\\" and \"\"doubled\"\"\"",
                    vec![l("VERSION \"V1.0\""), l("PROJECT_NO P_0815")],
                ),
                b(
                    "MODULE mod_a \"\"",
                    vec![
                        It::B("/begin A2ML".to_string(), vec![It::Raw(A2ML_A.to_string())], "/end A2ML".to_string()),
                        b(
                            "MOD_COMMON \"common\"",
                            vec![l("BYTE_ORDER MSB_LAST"), l("ALIGNMENT_LONG 4"), l("DEPOSIT ABSOLUTE")],
                        ),
                        b(
                            "MOD_PAR \"par\"",
                            vec![
                                l("ADDR_EPK 0x80000"),
                                l("EPK \"epk \u{4e2d}\u{6587}\""),
                                l("SYSTEM_CONSTANT \"pi\" \"3.14\""),
                                b(
                                    "MEMORY_SEGMENT seg0 \"\" DATA FLASH INTERN 0x4000 0x1000 -1 -1 -1 -1 -1",
                                    vec![b(
                                        "IF_DATA VFT",
                                        vec![b("SEG 0x4000 0x1000", vec![l("ATTR RW")])],
                                    )],
                                ),
                            ],
                        ),
                        b(
                            "IF_DATA VFT",
                            vec![
                                l("FLAG"),
                                l("/* a comment between tagged items */"),
                                l("LEVEL 3"),
                                l("ITEM \"one\" -1"),
                                l("ITEM \"two\" 0x7FFF"),
                                b("SEG 0 0xFFFFFFFF", vec![l("ATTR XX")]),
                                b("REP -2147483648", vec![]),
                                b("REP 2147483647", vec![]),
                                b("CHK 1 2 3 4", vec![]),
                            ],
                        ),
                        b("IF_DATA RAW -9223372036854775808 18446744073709551615 1.5 -2.5e-3 -128 -32768 0x7FFFFFFF 255", vec![]),
                        b("IF_DATA", vec![b("BLK \"block text\" N 1 2 3", vec![])]),
                        b(
                            "COMPU_METHOD cm_lin \"linear\" LINEAR \"%6.2\" \"\u{b0}C\"",
                            vec![l("COEFFS_LINEAR 0.5 -40")],
                        ),
                        b(
                            "COMPU_METHOD cm_tab \"\" TAB_VERB \"%3.0\" \"\"",
                            vec![l("COMPU_TAB_REF vt_state")],
                        ),
                        b(
                            "COMPU_VTAB vt_state \"states\" TAB_VERB 3 0 \"off\" 1 \"on \u{1F600}\" 2 \"err\"",
                            vec![l("DEFAULT_VALUE \"?\"")],
                        ),
                        b(
                            "MEASUREMENT m_speed \"speed // not a comment\" UWORD cm_lin 0 0 -40 215.5",
                            vec![
                                l("ECU_ADDRESS 0x4000"),
                                l("// line comment inside an element"),
                                l("BIT_MASK 0xFFFF"),
                                l("FORMAT \"%5.1\""),
                                b(
                                    "ANNOTATION",
                                    vec![
                                        l("ANNOTATION_LABEL \"lbl\""),
                                        b("ANNOTATION_TEXT \"line1\\n\" \"line2 /* not a comment */\"", vec![]),
                                    ],
                                ),
                                b("IF_DATA VFT", vec![l("LEVEL 0xFF"), b("CHK", vec![])]),
                            ],
                        ),
                        b(
                            "MEASUREMENT m_state \"\" UBYTE cm_tab 0 0 0 2",
                            vec![l("ECU_ADDRESS 0x4002"), l("DISCRETE"), l("MATRIX_DIM 2 3")],
                        ),
                    ],
                ),
            ],
        ),
    ]
}

/// Document B: no A2ML, un-interpreted IF_DATA with nested blocks, calibration objects, groups
pub fn doc_b() -> Vec<It> {
    vec![
        l("ASAP2_VERSION 1 61"),
        b(
            "PROJECT P2 \"\"",
            vec![b(
                "MODULE M2 \"second\"",
                vec![
                    b(
                        "IF_DATA XCP",
                        vec![
                            l("VERSION 1 0x104"),
                            b(
                                "PROTOCOL_LAYER 0x0100 2000 -1 1.5 4294967296",
                                vec![l("OPTIONAL_CMD GET_ID"), b("NESTED \"s\" /* c */ ident", vec![b("DEEP", vec![])])],
                            ),
                            b("DAQ STATIC 0x10", vec![]),
                        ],
                    ),
                    b(
                        "RECORD_LAYOUT rl_val",
                        vec![l("FNC_VALUES 1 SWORD COLUMN_DIR DIRECT")],
                    ),
                    b(
                        "RECORD_LAYOUT rl_curve",
                        vec![
                            l("NO_AXIS_PTS_X 1 UBYTE"),
                            l("AXIS_PTS_X 2 SWORD INDEX_INCR DIRECT"),
                            l("FNC_VALUES 3 SWORD COLUMN_DIR DIRECT"),
                        ],
                    ),
                    b(
                        "COMPU_METHOD cm_id \"\" IDENTICAL \"%4.0\" \"rpm\"",
                        vec![],
                    ),
                    b(
                        "CHARACTERISTIC c_val \"value\" VALUE 0x8000 rl_val 0 cm_id -32768 32767",
                        vec![l("EXTENDED_LIMITS -40000 40000"), l("READ_ONLY")],
                    ),
                    b(
                        "CHARACTERISTIC c_curve \"curve\" CURVE 0x8010 rl_curve 0 cm_id -100 100",
                        vec![
                            b(
                                "AXIS_DESCR STD_AXIS m_in cm_id 8 0 7000",
                                vec![l("MONOTONY MON_INCREASE"), l("FORMAT \"%4.0\"")],
                            ),
                            b("IF_DATA CANAPE_EXT 100 LINK_MAP \"c_curve\" 0x8010 0 0 1", vec![]),
                        ],
                    ),
                    b(
                        "MEASUREMENT m_in \"\" SWORD cm_id 0 0 -32768 32767",
                        vec![l("ECU_ADDRESS 0x2000"), b("IF_DATA ETK KP_BLOB 0x2000 INTERN 2 RASTER 1", vec![])],
                    ),
                    b(
                        "FUNCTION f_main \"main\"",
                        vec![
                            b("DEF_CHARACTERISTIC c_val c_curve", vec![]),
                            b("IN_MEASUREMENT m_in", vec![]),
                        ],
                    ),
                    b(
                        "GROUP g_root \"root\"",
                        vec![l("ROOT"), b("SUB_GROUP g_sub", vec![])],
                    ),
                    b(
                        "GROUP g_sub \"sub\"",
                        vec![b("REF_CHARACTERISTIC c_val c_curve", vec![]), b("REF_MEASUREMENT m_in", vec![])],
                    ),
                ],
            )],
        ),
    ]
}

/// Document C: two modules, typedefs / instances, units; tiny A2ML with a sequence
pub fn doc_c() -> Vec<It> {
    vec![
        l("ASAP2_VERSION 1 71"),
        b(
            "PROJECT P3 \"\"",
            vec![
                b(
                    "MODULE first \"\"",
                    vec![
                        It::B(
                            "/begin A2ML".to_string(),
                            vec![It::Raw("block \"IF_DATA\" taggedunion { \"SEQ\" (struct { uint; char[8]; })*; \"ONE\" taggedstruct { (\"T\" int)*; }; };".to_string())],
                            "/end A2ML".to_string(),
                        ),
                        b("IF_DATA SEQ 1 \"a\" 2 \"b\" 0xFFFF \"c\"", vec![]),
                        b("IF_DATA ONE T 1 T -2 T 3", vec![]),
                        b(
                            "UNIT u_m \"metre\" \"m\" EXTENDED_SI",
                            vec![l("SI_EXPONENTS 1 0 0 0 0 0 0")],
                        ),
                        b(
                            "TYPEDEF_MEASUREMENT td_m \"\" UBYTE NO_COMPU_METHOD 0 0 0 255",
                            vec![],
                        ),
                        b(
                            "TYPEDEF_STRUCTURE td_s \"\" 4",
                            vec![
                                b("STRUCTURE_COMPONENT c0 td_m 0", vec![]),
                                b("STRUCTURE_COMPONENT c1 td_m 1", vec![l("MATRIX_DIM 3")]),
                            ],
                        ),
                        b("INSTANCE inst \"\" td_s 0x1000", vec![l("MATRIX_DIM 2")]),
                    ],
                ),
                b(
                    "MODULE second \"\"",
                    vec![b(
                        "MEASUREMENT only \"\" A_UINT64 NO_COMPU_METHOD 0 0 0 18446744073709551615",
                        vec![l("ECU_ADDRESS 0xFFFFFFFF")],
                    )],
                ),
            ],
        ),
    ]
}

/// the children of the first MODULE of a document (the body of a "fragment")
pub fn module_body(doc: &[It]) -> Vec<It> {
    fn find(items: &[It]) -> Option<Vec<It>> {
        for it in items {
            if let It::B(head, kids, _) = it {
                if head.starts_with("/begin MODULE") {
                    return Some(kids.clone());
                }
                if let Some(r) = find(kids) {
                    return Some(r);
                }
            }
        }
        None
    }
    find(doc).unwrap_or_default()
}

/// split a text into lexical pieces without using the library: strings, comments, whitespace-free runs.
/// Only used to *mutate* documents (deletion / duplication / swap), never as an oracle.
pub fn split_tokens(text: &str) -> Vec<String> {
    let bytes = text.as_bytes();
    let mut out = Vec::new();
    let mut i = 0;
    while i < bytes.len() {
        let c = bytes[i];
        if c.is_ascii_whitespace() {
            i += 1;
            continue;
        }
        let start = i;
        if c == b'"' {
            i += 1;
            while i < bytes.len() {
                if bytes[i] == b'\\' {
                    i += 2;
                    continue;
                }
                if bytes[i] == b'"' {
                    if i + 1 < bytes.len() && bytes[i + 1] == b'"' {
                        i += 2;
                        continue;
                    }
                    i += 1;
                    break;
                }
                i += 1;
            }
            if i > bytes.len() {
                i = bytes.len();
            }
        } else if bytes[i..].starts_with(b"/*") {
            i += 2;
            while i < bytes.len() && !bytes[i..].starts_with(b"*/") {
                i += 1;
            }
            i = (i + 2).min(bytes.len());
        } else if bytes[i..].starts_with(b"//") {
            while i < bytes.len() && bytes[i] != b'\n' {
                i += 1;
            }
        } else {
            while i < bytes.len() && !bytes[i].is_ascii_whitespace() {
                i += 1;
            }
        }
        while !text.is_char_boundary(i) {
            i += 1;
        }
        out.push(text[start..i].to_string());
    }
    out
}

/// join tokens again; a line comment token is followed by a newline, everything else by a blank
pub fn join_tokens(tokens: &[String]) -> String {
    let mut s = String::new();
    for t in tokens {
        s.push_str(t);
        if t.starts_with("//") {
            s.push('\n');
        } else {
            s.push(' ');
        }
    }
    s
}

// ===================================================================================================
// C17 specific part
// ===================================================================================================
const PID: &str = "C17";

#[derive(Clone, Copy, PartialEq, Eq, Debug)]
enum Enc {
    Utf8,
    Utf8Bom,
    Utf16Le,
    Utf16LeBom,
    Utf16Be,
    Utf16BeBom,
    Utf32Le,
    Utf32LeBom,
    Utf32Be,
    Utf32BeBom,
}

const ENCODINGS: [Enc; 10] = [
    Enc::Utf8,
    Enc::Utf8Bom,
    Enc::Utf16Le,
    Enc::Utf16LeBom,
    Enc::Utf16Be,
    Enc::Utf16BeBom,
    Enc::Utf32Le,
    Enc::Utf32LeBom,
    Enc::Utf32Be,
    Enc::Utf32BeBom,
];

/// independent encoder (std only)
fn encode(text: &str, enc: Enc) -> Vec<u8> {
    let mut out = Vec::with_capacity(text.len() * 4 + 4);
    match enc {
        Enc::Utf8 => out.extend_from_slice(text.as_bytes()),
        Enc::Utf8Bom => {
            out.extend_from_slice(&[0xEF, 0xBB, 0xBF]);
            out.extend_from_slice(text.as_bytes());
        }
        Enc::Utf16Le | Enc::Utf16LeBom => {
            if enc == Enc::Utf16LeBom {
                out.extend_from_slice(&[0xFF, 0xFE]);
            }
            for u in text.encode_utf16() {
                out.extend_from_slice(&u.to_le_bytes());
            }
        }
        Enc::Utf16Be | Enc::Utf16BeBom => {
            if enc == Enc::Utf16BeBom {
                out.extend_from_slice(&[0xFE, 0xFF]);
            }
            for u in text.encode_utf16() {
                out.extend_from_slice(&u.to_be_bytes());
            }
        }
        Enc::Utf32Le | Enc::Utf32LeBom => {
            if enc == Enc::Utf32LeBom {
                out.extend_from_slice(&[0xFF, 0xFE, 0x00, 0x00]);
            }
            for c in text.chars() {
                out.extend_from_slice(&(c as u32).to_le_bytes());
            }
        }
        Enc::Utf32Be | Enc::Utf32BeBom => {
            if enc == Enc::Utf32BeBom {
                out.extend_from_slice(&[0x00, 0x00, 0xFE, 0xFF]);
            }
            for c in text.chars() {
                out.extend_from_slice(&(c as u32).to_be_bytes());
            }
        }
    }
    out
}

fn latin1(bytes: &[u8]) -> String {
    bytes.iter().map(|b| *b as char).collect()
}

// ---------------------------------------------------------------------------------------------------
// what is compared: outcome of a load reduced to comparable data
// ---------------------------------------------------------------------------------------------------
#[derive(PartialEq, Debug, Clone)]
enum Loaded {
    /// (text written from the model - contains strings *and* comments -, number of diagnostics)
    Ok(String, usize),
    /// error message with the file name removed
    Err(String),
}

enum Verdict {
    Pass,
    Fail(String, String, String),
}

fn describe(l: &Loaded) -> String {
    match l {
        Loaded::Ok(text, n) => format!("Ok({} diagnostics, written text {} bytes, hash {:016x})", n, text.len(), fnv(text.as_bytes())),
        Loaded::Err(e) => format!("Err({})", e),
    }
}

/// runs on the worker thread: load(path) versus load_from_string(text)
fn compare(path: PathBuf, expected_text: Option<String>, spec: Option<String>, strict: bool, must_be_ok: bool) -> Verdict {
    let from_file = a2lfile::load(&path, spec.clone(), strict);
    let Some(text) = expected_text else {
        // totality only
        match from_file {
            Ok((f, log)) => {
                let _ = f.write_to_string();
                let _ = log.iter().map(|l| l.to_string().len()).sum::<usize>();
            }
            Err(e) => {
                let _ = format!("{} {:?}", e, e);
            }
        }
        return Verdict::Pass;
    };
    let from_string = a2lfile::load_from_string(&text, spec, strict);
    let path_str = path.to_string_lossy().to_string();
    let (a, b) = match (from_file, from_string) {
        (Ok((ff, fl)), Ok((sf, sl))) => {
            if ff != sf {
                return Verdict::Fail("model-neq".into(), "model(load(path)) == model(load_from_string(decoded text))".into(), "models differ".into());
            }
            (Loaded::Ok(ff.write_to_string(), fl.len()), Loaded::Ok(sf.write_to_string(), sl.len()))
        }
        (Ok((ff, fl)), Err(se)) => (Loaded::Ok(ff.write_to_string(), fl.len()), Loaded::Err(se.to_string())),
        (Err(fe), Ok((sf, sl))) => (Loaded::Err(fe.to_string().replace(&path_str, "")), Loaded::Ok(sf.write_to_string(), sl.len())),
        (Err(fe), Err(se)) => {
            if std::mem::discriminant(&fe) != std::mem::discriminant(&se) {
                return Verdict::Fail("error-kind".into(), format!("same error as load_from_string: {}", se), format!("{}", fe));
            }
            (Loaded::Err(fe.to_string().replace(&path_str, "")), Loaded::Err(se.to_string()))
        }
    };
    if a != b {
        return Verdict::Fail(
            "result-neq".into(),
            format!("load(path) gives the result of load_from_string(decoded text): {}", describe(&b)),
            describe(&a),
        );
    }
    if must_be_ok {
        if let Loaded::Err(e) = &a {
            return Verdict::Fail("generator".into(), "valid document loads".into(), format!("Err({})", e));
        }
    }
    Verdict::Pass
}

struct Ctx {
    worker: Worker<Verdict>,
    report: Report,
    scratch: Scratch,
    aborted: bool,
    /// residue classes (length mod 4) seen per encoding for valid documents
    residues: [[u64; 4]; 10],
    file_no: usize,
}

impl Ctx {
    fn check(&mut self, case: &str, bytes: &[u8], expected_text: Option<&str>, spec: usize, strict: bool, must_be_ok: bool) {
        if self.aborted {
            return;
        }
        self.report.case(bytes);
        self.file_no = (self.file_no + 1) % 8;
        let path = self.scratch.path(&format!("enc_{}.a2l", self.file_no));
        write_file(&path, bytes);
        let spec_s = match spec {
            0 => None,
            _ => Some(A2ML_A.to_string()),
        };
        let exp = expected_text.map(|s| s.to_string());
        let p = path.clone();
        let g = self.worker.run(move || compare(p, exp, spec_s, strict, must_be_ok));
        let case = format!("{}[{}/{}]", case, if strict { "strict" } else { "lenient" }, if spec == 0 { "spec=None" } else { "spec=valid" });
        match g {
            Guarded::Done(Verdict::Pass) => {}
            Guarded::Done(Verdict::Fail(kind, expected, happened)) => {
                let k = format!("{}:{}", kind, case.split(':').next().unwrap_or(""));
                self.report.fail(&case, &k, &expected, &happened, &json_escape_bytes(bytes));
            }
            Guarded::Panicked(msg) => {
                self.report.fail(&case, &format!("panic:{}", msg), "no panic", &format!("panic: {}", msg), &json_escape_bytes(bytes));
            }
            Guarded::Timeout => {
                self.report.fail(&case, "timeout", "the call returns within 5 s", "timeout", &json_escape_bytes(bytes));
                if self.worker.timeouts >= 2 {
                    self.aborted = true;
                }
            }
        }
    }

    /// one text through all ten encodings
    fn all_encodings(&mut self, case: &str, text: &str, rot: usize, must_be_ok: bool) {
        for (ei, enc) in ENCODINGS.iter().enumerate() {
            let bytes = encode(text, *enc);
            if must_be_ok {
                self.residues[ei][bytes.len() % 4] += 1;
            }
            let strict = (rot + ei) % 2 == 0;
            let spec = ((rot + ei) / 2) % 2;
            self.check(&format!("{}:{:?}:len%4={}", case, enc, bytes.len() % 4), &bytes, Some(text), spec, strict, must_be_ok);
        }
    }
}

// ---------------------------------------------------------------------------------------------------
// generated documents: padding to reach every length residue, non-ASCII / non-BMP characters sprinkled into
// strings and comments
// ---------------------------------------------------------------------------------------------------
const SPRINKLE: &[char] = &[
    '\u{e9}', '\u{df}', '\u{ff}', '\u{100}', '\u{20ac}', '\u{4e2d}', '\u{d7ff}', '\u{e000}', '\u{fffd}', '\u{feff}', '\u{fffe}',
    '\u{ffff}', '\u{10000}', '\u{1F600}', '\u{1D11E}', '\u{10FFFF}', '\u{a0}', '\u{2028}', '\u{85}', '\u{7f}', '\u{1}',
];

/// insert `count` characters at random places inside string literals and comments
fn sprinkle(text: &str, rng: &mut Rng, count: usize) -> String {
    let tokens = split_tokens(text);
    // positions (byte offsets in `text`) inside strings / comments where a character may be inserted
    let mut spots: Vec<usize> = Vec::new();
    let mut search_from = 0usize;
    // the A2ML block is a different language (its quoted tags are not free text): leave it alone
    let a2ml_range = match (text.find("/begin A2ML"), text.find("/end A2ML")) {
        (Some(a), Some(b)) => a..b,
        _ => 0..0,
    };
    for t in &tokens {
        let pos = match text[search_from..].find(t.as_str()) {
            Some(p) => search_from + p,
            None => continue,
        };
        search_from = pos + t.len();
        if a2ml_range.contains(&pos) {
            continue;
        }
        let is_string = t.starts_with('"') && t.ends_with('"') && t.len() >= 2;
        let is_block_comment = t.starts_with("/*") && t.ends_with("*/") && t.len() >= 4;
        let is_line_comment = t.starts_with("//");
        if is_string {
            // not directly behind a backslash (would form an escape) - just use positions after the opening quote
            for (off, ch) in t.char_indices() {
                if off >= 1 && off < t.len() - 1 && ch != '\\' && ch != '"' {
                    spots.push(pos + off);
                }
            }
            if t.len() == 2 {
                spots.push(pos + 1);
            }
        } else if is_block_comment {
            for (off, _) in t.char_indices() {
                if off >= 2 && off <= t.len() - 2 {
                    spots.push(pos + off);
                }
            }
        } else if is_line_comment {
            for (off, _) in t.char_indices() {
                if off >= 2 {
                    spots.push(pos + off);
                }
            }
            spots.push(pos + t.len());
        }
    }
    if spots.is_empty() {
        return text.to_string();
    }
    let mut chosen: Vec<(usize, char)> = (0..count).map(|_| (spots[rng.below(spots.len())], SPRINKLE[rng.below(SPRINKLE.len())])).collect();
    chosen.sort_by(|a, b| b.0.cmp(&a.0));
    let mut out = text.to_string();
    for (p, c) in chosen {
        if out.is_char_boundary(p) {
            out.insert(p, c);
        }
    }
    out
}

/// pad with a comment of k characters after the first line (keeps the first character and the end of the text)
fn pad(text: &str, k: usize, filler: char) -> String {
    let first_nl = text.find('\n').map(|p| p + 1).unwrap_or(0);
    if first_nl == 0 {
        return text.to_string();
    }
    let mut out = String::new();
    out.push_str(&text[..first_nl]);
    if k > 0 {
        // k characters in total: "/**/" needs 4, so use blanks for small k
        for _ in 0..k {
            out.push(filler);
        }
    }
    out.push_str(&text[first_nl..]);
    out
}

#[test]
fn vf_driver_c17() {
    install_panic_hook();
    let seed = env_seed();
    let mut rng = Rng::new(seed);
    let mut ctx = Ctx {
        worker: Worker::new(),
        report: Report::new(PID),
        scratch: Scratch::new(PID),
        aborted: false,
        residues: [[0; 4]; 10],
        file_no: 0,
    };
    let thorough = ctx.report.thorough;
    let base: Vec<(&str, String)> = vec![("A", flat(&doc_a())), ("B", flat(&doc_b())), ("C", flat(&doc_c()))];

    // ---- part 1: base documents x padding 0..7 (every length residue for every encoding) x end of file with / without
    //      line break x CRLF ----
    let t0 = Instant::now();
    let mut rot = 0usize;
    for (name, text) in &base {
        let variants: Vec<(String, String)> = vec![
            ("lf".to_string(), text.clone()),
            ("noeol".to_string(), text.trim_end().to_string()),
            ("crlf".to_string(), text.replace('\n', "\r\n")),
            ("leading-nl".to_string(), format!("\n{}", text)),
            ("leading-blank".to_string(), format!(" \t{}", text.trim_end())),
        ];
        for (vname, v) in &variants {
            for k in 0..8 {
                // blanks change the length by one byte / one unit in every encoding; a non-BMP filler inside a comment changes
                // UTF-8 by 4, UTF-16 by 4 and UTF-32 by 4 bytes, a 2-byte character by 2 / 2 / 4
                let padded = if k < 4 { pad(v, k, ' ') } else { pad(&pad(v, 1, ' '), k - 4, ' ').replacen("ASAP2_VERSION", "/*\u{e9}*/ASAP2_VERSION", 1) };
                ctx.all_encodings(&format!("doc:{}:{}:pad{}", name, vname, k), &padded, rot, true);
                rot += 1;
            }
        }
    }
    eprintln!("[C17] base documents: {} cases, {:.2} s", ctx.report.cases, t0.elapsed().as_secs_f64());

    // ---- part 2: random non-ASCII / non-BMP characters in strings and comments ----
    let t1 = Instant::now();
    let before = ctx.report.cases;
    let count = if thorough { 6000 } else { 160 };
    for n in 0..count {
        let (name, text) = &base[n % base.len()];
        let how_many = 1 + rng.below(12);
        let mut t = sprinkle(text, &mut rng, how_many);
        if rng.chance(1, 3) {
            t = t.trim_end().to_string();
        }
        t = pad(&t, rng.below(4), ' ');
        ctx.all_encodings(&format!("sprinkle:{}:{}", name, n), &t, rot, true);
        rot += 1;
        if ctx.aborted {
            break;
        }
    }
    eprintln!("[C17] sprinkled documents: {} cases, {:.2} s", ctx.report.cases - before, t1.elapsed().as_secs_f64());

    // ---- part 2b: LARGE documents with dense multi-unit content. Detection and decoding must not depend on where in the
    //      file a multi-byte / surrogate-pair character lies: a long comment made of non-BMP characters (every UTF-16 unit
    //      position is inside a surrogate pair, both parities through the optional BOM and an extra ASCII character) and of
    //      2-, 3- and 4-byte characters in rotation (every byte offset mod 2^k is crossed by a multi-byte character) ----
    let t1b = Instant::now();
    let before = ctx.report.cases;
    {
        let (_, text) = &base[2];
        let sizes: &[usize] = if thorough { &[1000, 4090, 8200, 16500, 33000, 70000] } else { &[4090, 8200, 33000] };
        for (si, n) in sizes.iter().enumerate() {
            let mut pairs = String::with_capacity(n * 4 + 16);
            for _ in 0..*n {
                pairs.push('\u{1F600}');
            }
            let mut mixed = String::with_capacity(n * 4 + 16);
            let rot_chars = ['\u{e9}', '\u{20ac}', '\u{1D11E}', 'x', '\u{4e2d}', '\u{10FFFF}'];
            for i in 0..*n {
                mixed.push(rot_chars[i % rot_chars.len()]);
            }
            for (kind, body) in [("pairs", &pairs), ("mixed", &mixed)] {
                for shift in 0..2 {
                    // `shift` moves everything behind it by one unit / byte
                    let filler = if shift == 1 { "y" } else { "" };
                    let big = text.replacen("ASAP2_VERSION", &format!("/*{}{}*/ ASAP2_VERSION", filler, body), 1);
                    ctx.all_encodings(&format!("large:{}:{}:{}:shift{}", kind, n, si, shift), &big, rot, true);
                    rot += 1;
                }
            }
            if ctx.aborted {
                break;
            }
        }
    }
    eprintln!("[C17] large documents: {} cases, {:.2} s", ctx.report.cases - before, t1b.elapsed().as_secs_f64());

    // generator self-check: every residue class reached for every encoding (UTF-16: 0 and 2, UTF-32: 0)
    for (ei, enc) in ENCODINGS.iter().enumerate() {
        let need: &[usize] = match enc {
            Enc::Utf8 | Enc::Utf8Bom => &[0, 1, 2, 3],
            Enc::Utf16Le | Enc::Utf16LeBom | Enc::Utf16Be | Enc::Utf16BeBom => &[0, 2],
            _ => &[0],
        };
        for r in need {
            if ctx.residues[ei][*r] == 0 {
                ctx.report.fail("generator:residues", &format!("residue:{:?}:{}", enc, r), "every length residue class is generated", &format!("{:?}: no file with length % 4 == {}", enc, r), "\"\"");
            }
        }
    }

    // ---- part 3: documents that do not load (errors must agree as well): truncated documents ----
    let t2 = Instant::now();
    let before = ctx.report.cases;
    {
        let text = &base[0].1;
        let step = if thorough { 7 } else { 97 };
        let mut cut = 1;
        while cut < text.len() {
            if text.is_char_boundary(cut) {
                ctx.all_encodings(&format!("truncated:A@{}", cut), &text[..cut], rot, false);
                rot += 1;
            }
            cut += step;
        }
    }
    eprintln!("[C17] truncated documents: {} cases, {:.2} s", ctx.report.cases - before, t2.elapsed().as_secs_f64());

    // ---- part 4: invalid UTF-8 is read as Latin-1 ----
    let t3 = Instant::now();
    let before = ctx.report.cases;
    {
        // (a) a Latin-1 encoded document (characters up to U+00FF in strings and comments)
        let latin_doc = flat(&doc_c())
            .replace("\"metre\"", "\"m\u{e8}tre \u{b5}\u{df}\u{ff}\u{a9}\"")
            .replace("ASAP2_VERSION 1 71", "/* \u{c4}\u{d6}\u{dc} \u{e9}\u{e8}\u{ea} \u{80}\u{9f}\u{a0}\u{ad} */ ASAP2_VERSION 1 71 // \u{fc}ber");
        for k in 0..4 {
            let t = pad(&latin_doc, k, ' ');
            let bytes: Vec<u8> = t.chars().map(|c| c as u32 as u8).collect();
            if std::str::from_utf8(&bytes).is_ok() {
                ctx.report.fail("generator:latin1", "generator:latin1", "Latin-1 bytes are not valid UTF-8", "they are", "\"\"");
            }
            ctx.check(&format!("latin1:doc:pad{}", k), &bytes, Some(&t), 0, k % 2 == 0, true);
        }
        // (b) valid UTF-8 multi-byte text plus ONE invalid byte somewhere in a string / comment: the whole file is Latin-1
        let text = &base[0].1;
        let tb = text.as_bytes();
        let positions: Vec<usize> = {
            // positions inside the banner comment and inside the PROJECT long identifier
            let c0 = text.find("banner").unwrap_or(10);
            let c1 = text.find("projet").unwrap_or(60);
            let c2 = text.find("speed //").unwrap_or(100);
            vec![c0, c0 + 3, c1, c1 + 2, c2, c2 + 1]
        };
        for (pi, p) in positions.iter().enumerate() {
            for bad in [0xFFu8, 0xC3, 0xE2, 0xF0, 0x80, 0xBF, 0xC0, 0xF8] {
                let mut bytes = tb[..*p].to_vec();
                bytes.push(bad);
                bytes.push(b' ');
                bytes.extend_from_slice(&tb[*p..]);
                if std::str::from_utf8(&bytes).is_ok() {
                    continue;
                }
                let expected = latin1(&bytes);
                ctx.check(&format!("latin1:broken-utf8:{}:{:02x}", pi, bad), &bytes, Some(&expected), pi % 2, bad % 2 == 0, true);
            }
        }
        // (c) truncated inside a multi-byte character (file ends with an incomplete sequence)
        for cut in 0..tb.len().min(120) {
            if !text.is_char_boundary(cut) {
                let bytes = &tb[..cut];
                let expected = latin1(bytes);
                ctx.check(&format!("latin1:cut-in-char@{}", cut), bytes, Some(&expected), 0, false, false);
            }
        }
    }
    eprintln!("[C17] Latin-1 fallback: {} cases, {:.2} s", ctx.report.cases - before, t3.elapsed().as_secs_f64());

    // ---- part 5: an include file in another encoding than the including file ----
    let t4 = Instant::now();
    let before = ctx.report.cases;
    {
        let inc_text = "/begin MEASUREMENT inc_m \"inclus \u{e9}\u{20ac}\u{1F600}\" UBYTE NO_COMPU_METHOD 0 0 0 255 /end MEASUREMENT";
        let flat_text = format!("ASAP2_VERSION 1 71\n/begin PROJECT p \"\"\n/begin MODULE m \"\"\n{}\n/end MODULE\n/end PROJECT", inc_text);
        let main_text = "ASAP2_VERSION 1 71\n/begin PROJECT p \"\"\n/begin MODULE m \"\"\n/include \"c17_inc.a2l\"\n/end MODULE\n/end PROJECT";
        for (mi, menc) in ENCODINGS.iter().enumerate() {
            for (ii, ienc) in ENCODINGS.iter().enumerate() {
                if !thorough && (mi + ii) % 3 != 0 {
                    continue;
                }
                let inc_path = ctx.scratch.path("c17_inc.a2l");
                write_file(&inc_path, &encode(inc_text, *ienc));
                // the expected text is the flattened one; only the models are compared (the written text differs: directive)
                let bytes = encode(main_text, *menc);
                ctx.report.case(&bytes);
                let path = ctx.scratch.path("c17_main.a2l");
                write_file(&path, &bytes);
                let ft = flat_text.clone();
                let g = ctx.worker.run(move || {
                    let a = a2lfile::load(&path, None, true);
                    let b = a2lfile::load_from_string(&ft, None, true);
                    match (a, b) {
                        (Ok((fa, _)), Ok((fb, _))) => {
                            if fa == fb {
                                Verdict::Pass
                            } else {
                                Verdict::Fail("include-enc-neq".into(), "model == model of the flattened text".into(), "models differ".into())
                            }
                        }
                        (Err(e), _) => Verdict::Fail("include-enc-err".into(), "loads".into(), format!("Err({})", e)),
                        (_, Err(e)) => Verdict::Fail("generator".into(), "flattened text loads".into(), format!("Err({})", e)),
                    }
                });
                let case = format!("include-encoding:main={:?}:inc={:?}", menc, ienc);
                match g {
                    Guarded::Done(Verdict::Pass) => {}
                    Guarded::Done(Verdict::Fail(kind, e, h)) => ctx.report.fail(&case, &kind, &e, &h, &json_escape_bytes(&bytes)),
                    Guarded::Panicked(msg) => ctx.report.fail(&case, &format!("panic:{}", msg), "no panic", &format!("panic: {}", msg), &json_escape_bytes(&bytes)),
                    Guarded::Timeout => ctx.report.fail(&case, "timeout", "returns within 5 s", "timeout", &json_escape_bytes(&bytes)),
                }
            }
        }
        let _ = std::fs::remove_file(ctx.scratch.path("c17_inc.a2l"));
    }
    eprintln!("[C17] include in another encoding: {} cases, {:.2} s", ctx.report.cases - before, t4.elapsed().as_secs_f64());

    // ---- part 6: arbitrary byte strings never panic ----
    let t5 = Instant::now();
    let before = ctx.report.cases;
    {
        // (a) exhaustive: all byte strings of length 0..=2 over a small alphabet, length 3..4 over a smaller one
        let alpha: [u8; 12] = [0x00, 0x01, 0x2F, 0x41, 0x7F, 0x80, 0xBB, 0xBF, 0xEF, 0xFE, 0xFF, 0xD8];
        ctx.check("bytes:empty", &[], None, 0, false, false);
        for a in alpha {
            ctx.check("bytes:1", &[a], None, 0, false, false);
            for b in alpha {
                ctx.check("bytes:2", &[a, b], None, 0, true, false);
                for c in alpha {
                    if thorough || (a as usize + b as usize + c as usize) % 3 == 0 {
                        ctx.check("bytes:3", &[a, b, c], None, 0, false, false);
                    }
                    if thorough {
                        for d in alpha {
                            ctx.check("bytes:4", &[a, b, c, d], None, 0, false, false);
                        }
                    }
                }
            }
        }
        // (b) every byte prefix of a small document in every encoding (cuts inside code units, inside surrogate pairs)
        let small = "/* \u{e9}\u{1F600} */ ASAP2_VERSION 1 71 /begin PROJECT p \"\u{20ac}\u{1D11E}\" /begin MODULE m \"\" /end MODULE /end PROJECT";
        for enc in ENCODINGS {
            let bytes = encode(small, enc);
            let step = if thorough { 1 } else if bytes.len() > 300 { 3 } else { 1 };
            let mut cut = 0;
            while cut <= bytes.len() {
                ctx.check(&format!("bytes:prefix:{:?}", enc), &bytes[..cut], None, 0, cut % 2 == 0, false);
                cut += step;
            }
            // one byte removed / one byte duplicated / one byte flipped
            let n = if thorough { bytes.len() } else { bytes.len().min(80) };
            for i in 0..n {
                let mut d = bytes.clone();
                d.remove(i);
                ctx.check(&format!("bytes:del:{:?}", enc), &d, None, 0, false, false);
                let mut d = bytes.clone();
                d[i] ^= 0x80;
                ctx.check(&format!("bytes:flip:{:?}", enc), &d, None, 0, false, false);
                if thorough {
                    let mut d = bytes.clone();
                    d.insert(i, bytes[i]);
                    ctx.check(&format!("bytes:dup:{:?}", enc), &d, None, 0, false, false);
                    let mut d = bytes.clone();
                    d[i] = 0xD8; // lead surrogate byte / invalid UTF-8
                    ctx.check(&format!("bytes:d8:{:?}", enc), &d, None, 0, false, false);
                }
            }
        }
        // (c) random byte strings with structured heads
        let heads: [&[u8]; 12] = [
            b"",
            &[0xEF, 0xBB, 0xBF],
            &[0xFF, 0xFE],
            &[0xFE, 0xFF],
            &[0xFF, 0xFE, 0x00, 0x00],
            &[0x00, 0x00, 0xFE, 0xFF],
            &[0x00, 0x41],
            &[0x41, 0x00],
            &[0x00, 0x00, 0x00, 0x41],
            &[0x41, 0x00, 0x00, 0x00],
            &[0xEF, 0xBB],
            &[0x00],
        ];
        let count = if thorough { 150_000 } else { 2_000 };
        for _ in 0..count {
            let mut bytes = heads[rng.below(heads.len())].to_vec();
            let len = rng.below(40);
            let mode = rng.below(4);
            for _ in 0..len {
                bytes.push(match mode {
                    0 => rng.below(256) as u8,
                    1 => [0x00, 0x20, 0x41, 0x2F, 0xD8, 0xDC, 0xFF, 0xFE, 0x0A][rng.below(9)],
                    2 => {
                        if rng.chance(1, 2) {
                            0
                        } else {
                            rng.below(256) as u8
                        }
                    }
                    _ => b"/begin end A2ML \"*/\n"[rng.below(20)],
                });
            }
            ctx.check("bytes:random", &bytes, None, rng.below(2), rng.chance(1, 2), false);
            if ctx.aborted {
                break;
            }
        }
    }
    eprintln!("[C17] arbitrary bytes: {} cases, {:.2} s", ctx.report.cases - before, t5.elapsed().as_secs_f64());

    ctx.report.summary();
    let failures = ctx.report.failures;
    drop(ctx);
    assert!(failures == 0, "C17: {} failing case(s)", failures);
}
