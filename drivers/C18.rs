// vf driver C18 — IF_DATA is interpreted exactly as the applicable A2ML definition says
//
// bounded stand-in / counterexample finder, see /verif/drivers/README.md and /verif/drivers/notes/C18.md
//
// Generator: A2ML definitions from a small grammar (the driver's own model of the A2ML type language): all ten scalar
// types, char[n] strings, arrays, enums with and without values, structs, sequences ( )*, taggedstruct (with repeated
// members), taggedunion, blocks, named top-level types and references to them, nesting depth <= 3. For every definition
// conforming IF_DATA instances are derived from the definition together with the list of values an interpreter has to
// find (type of every value, integer notation), and single-token deviations that keep /begin and /end balanced and that
// no part of the definition can match. The blocks are placed in all eleven elements that admit IF_DATA. The definition is
// supplied in the file's A2ML block, through the a2ml_spec argument, or both (equal, or two definitions of different
// vendors). Phase 1: a fixed definition that uses every feature, every host x {conforming, deviating}; phase 2: random
// definitions.
// Oracle: conforming blocks are flagged valid and their values (flattened in document order, with their types, hex flag,
// element counts) equal the generator's list; deviating blocks are flagged invalid and kept; write_to_string() has the
// token sequence of the input (integers by value and notation, floats by value); the written text loads to the same
// interpretation; ifdata_cleanup() leaves exactly the conforming blocks (compared with the text of the input without the
// deviating blocks) and is idempotent.

use a2lfile::{A2lFile, GenericIfData, GenericIfDataTaggedItem, IfData};
use std::collections::HashSet;
use std::sync::mpsc;
use std::time::{Duration, Instant};

const PID: &str = "C18";

// ------------------------------------------------------------------------------------------------------------------
// harness

struct Rng(u64);
impl Rng {
    fn next(&mut self) -> u64 {
        self.0 = self.0.wrapping_add(0x9E37_79B9_7F4A_7C15);
        let mut z = self.0;
        z = (z ^ (z >> 30)).wrapping_mul(0xBF58_476D_1CE4_E5B9);
        z = (z ^ (z >> 27)).wrapping_mul(0x94D0_49BB_1331_11EB);
        z ^ (z >> 31)
    }
    fn below(&mut self, n: usize) -> usize {
        (self.next() % (n as u64)) as usize
    }
    fn chance(&mut self, percent: usize) -> bool {
        self.below(100) < percent
    }
}

fn json_escape(s: &str) -> String {
    let mut o = String::with_capacity(s.len() + 2);
    o.push('"');
    for c in s.chars() {
        match c {
            '"' => o.push_str("\\\""),
            '\\' => o.push_str("\\\\"),
            '\n' => o.push_str("\\n"),
            '\r' => o.push_str("\\r"),
            '\t' => o.push_str("\\t"),
            c if (c as u32) < 0x20 => o.push_str(&format!("\\u{:04x}", c as u32)),
            c => o.push(c),
        }
    }
    o.push('"');
    o
}

struct Fail {
    case: String,
    expected: String,
    happened: String,
}

fn fail<T>(case: &str, expected: &str, happened: String) -> Result<T, Fail> {
    Err(Fail {
        case: case.to_string(),
        expected: expected.to_string(),
        happened,
    })
}

type Job = Box<dyn FnOnce() -> Result<(), Fail> + Send>;
type JobResult = std::thread::Result<Result<(), Fail>>;

/// the library is only ever called on this thread; the test thread waits for the result with a timeout
struct Worker {
    jobs: mpsc::Sender<Job>,
    results: mpsc::Receiver<JobResult>,
}

fn spawn_worker() -> Worker {
    let (jobs, job_rx) = mpsc::channel::<Job>();
    let (result_tx, results) = mpsc::channel::<JobResult>();
    std::thread::spawn(move || {
        while let Ok(job) = job_rx.recv() {
            let r = std::panic::catch_unwind(std::panic::AssertUnwindSafe(job));
            if result_tx.send(r).is_err() {
                break;
            }
        }
    });
    Worker { jobs, results }
}

struct Report {
    worker: Option<Worker>,
    cases: u64,
    distinct: HashSet<u64>,
    failures: u64,
    printed: HashSet<String>,
    budget: String,
    seed: u64,
}

fn hash_str(s: &str) -> u64 {
    let mut h: u64 = 0xcbf2_9ce4_8422_2325;
    for b in s.bytes() {
        h ^= b as u64;
        h = h.wrapping_mul(0x0000_0100_0000_01b3);
    }
    h
}

impl Report {
    fn new() -> Self {
        let seed = std::env::var("VF_SEED")
            .ok()
            .and_then(|s| s.parse().ok())
            .unwrap_or(1u64);
        let budget = match std::env::var("VF_BUDGET").as_deref() {
            Ok("thorough") => "thorough".to_string(),
            _ => "quick".to_string(),
        };
        Report {
            worker: None,
            cases: 0,
            distinct: HashSet::new(),
            failures: 0,
            printed: HashSet::new(),
            budget,
            seed,
        }
    }

    /// run one case on the worker thread: panics and hangs are turned into failures
    fn run<F>(&mut self, case: &str, input: &str, f: F)
    where
        F: FnOnce() -> Result<(), Fail> + Send + 'static,
    {
        self.cases += 1;
        self.distinct.insert(hash_str(input));
        let worker = self.worker.take().unwrap_or_else(spawn_worker);
        let sent = worker.jobs.send(Box::new(f)).is_ok();
        let received = if sent { worker.results.recv_timeout(Duration::from_secs(10)) } else { Err(mpsc::RecvTimeoutError::Disconnected) };
        let outcome = match received {
            Ok(Ok(Ok(()))) => {
                self.worker = Some(worker);
                return;
            }
            Ok(Ok(Err(fl))) => {
                self.worker = Some(worker);
                fl
            }
            Ok(Err(p)) => {
                self.worker = Some(worker);
                let msg = if let Some(s) = p.downcast_ref::<String>() {
                    s.clone()
                } else if let Some(s) = p.downcast_ref::<&str>() {
                    s.to_string()
                } else {
                    "?".to_string()
                };
                Fail {
                    case: case.to_string(),
                    expected: "no panic".to_string(),
                    happened: format!("panic: {msg}"),
                }
            }
            Err(_) => Fail {
                case: case.to_string(),
                expected: "library call returns".to_string(),
                happened: "timeout".to_string(),
            },
        };
        self.failures += 1;
        // one line per distinct failing case (distinct = phase and violated check), at most 5
        let class = outcome.case.split('/').next().unwrap_or("").to_string() + "|" + outcome.case.rsplit('/').next().unwrap_or("");
        if self.printed.len() < 5 && self.printed.insert(class) {
            println!(
                "FAILING-INPUT property={PID} case={} :: {} :: {} :: {}",
                outcome.case,
                outcome.expected,
                outcome.happened.replace('\n', " "),
                json_escape(input)
            );
        }
    }

    fn finish(&self) {
        println!(
            "DRIVER-SUMMARY property={PID} cases={} distinct={} failures={} budget={} seed={}",
            self.cases,
            self.distinct.len(),
            self.failures,
            self.budget,
            self.seed
        );
        assert!(self.failures == 0, "{} failing cases", self.failures);
    }
}

// ------------------------------------------------------------------------------------------------------------------
// A2ML definitions (the driver's own model of the A2ML type language)

#[derive(Clone, Copy, PartialEq, Debug)]
enum Sc {
    Char,
    Int,
    Long,
    Int64,
    UChar,
    UInt,
    ULong,
    UInt64,
    Float,
    Double,
}
const ALL_SC: [Sc; 10] = [Sc::Char, Sc::Int, Sc::Long, Sc::Int64, Sc::UChar, Sc::UInt, Sc::ULong, Sc::UInt64, Sc::Float, Sc::Double];

fn sc_name(s: Sc) -> &'static str {
    match s {
        Sc::Char => "char",
        Sc::Int => "int",
        Sc::Long => "long",
        Sc::Int64 => "int64",
        Sc::UChar => "uchar",
        Sc::UInt => "uint",
        Sc::ULong => "ulong",
        Sc::UInt64 => "uint64",
        Sc::Float => "float",
        Sc::Double => "double",
    }
}

/// (bits, signed) of the integer types
fn sc_int(s: Sc) -> Option<(u32, bool)> {
    match s {
        Sc::Char => Some((8, true)),
        Sc::Int => Some((16, true)),
        Sc::Long => Some((32, true)),
        Sc::Int64 => Some((64, true)),
        Sc::UChar => Some((8, false)),
        Sc::UInt => Some((16, false)),
        Sc::ULong => Some((32, false)),
        Sc::UInt64 => Some((64, false)),
        _ => None,
    }
}

#[derive(Clone, Debug)]
enum Ty {
    Sc(Sc),
    Str(usize),          // char[n]
    Arr(Box<Ty>, usize), // t[n], t not char
    Enum(Option<String>, bool, Vec<(String, Option<i32>)>), // name, written as reference, items
    Struct(Option<String>, bool, Vec<Ty>),
    TStruct(Option<String>, bool, Vec<Tagged>),
    TUnion(Option<String>, bool, Vec<Tagged>),
}

#[derive(Clone, Debug)]
struct Tagged {
    tag: String,
    block: bool,
    repeat: bool,
    item: TItem,
}

#[derive(Clone, Debug)]
enum TItem {
    Nothing,
    One(Ty),
    Seq(Ty),
}

#[derive(Clone, Debug)]
struct Definition {
    named: Vec<Ty>, // top-level named type definitions, in the order of their declaration
    top: TItem,     // block "IF_DATA" <top>;
}

fn render_ty(t: &Ty, out: &mut String, define: bool) {
    match t {
        Ty::Sc(s) => out.push_str(sc_name(*s)),
        Ty::Str(n) => out.push_str(&format!("char[{n}]")),
        Ty::Arr(inner, n) => {
            render_ty(inner, out, false);
            out.push_str(&format!("[{n}]"));
        }
        Ty::Enum(name, by_ref, items) => {
            out.push_str("enum");
            if let Some(n) = name {
                out.push(' ');
                out.push_str(n);
            }
            if !*by_ref || define {
                out.push_str(" {");
                for (i, (item, val)) in items.iter().enumerate() {
                    if i > 0 {
                        out.push(',');
                    }
                    out.push_str(&format!(" \"{item}\""));
                    if let Some(v) = val {
                        if v % 2 == 0 {
                            out.push_str(&format!(" = {v}"));
                        } else {
                            out.push_str(&format!(" = 0x{v:x}"));
                        }
                    }
                }
                out.push_str(" }");
            }
        }
        Ty::Struct(name, by_ref, members) => {
            out.push_str("struct");
            if let Some(n) = name {
                out.push(' ');
                out.push_str(n);
            }
            if !*by_ref || define {
                out.push_str(" {");
                for m in members {
                    out.push(' ');
                    render_ty(m, out, false);
                    out.push(';');
                }
                out.push_str(" }");
            }
        }
        Ty::TStruct(name, by_ref, items) | Ty::TUnion(name, by_ref, items) => {
            out.push_str(if matches!(t, Ty::TStruct(..)) { "taggedstruct" } else { "taggedunion" });
            if let Some(n) = name {
                out.push(' ');
                out.push_str(n);
            }
            if !*by_ref || define {
                out.push_str(" {\n");
                for it in items {
                    out.push_str("  ");
                    if it.repeat {
                        out.push('(');
                    }
                    if it.block {
                        out.push_str("block ");
                    }
                    out.push_str(&format!("\"{}\"", it.tag));
                    render_item(&it.item, out);
                    if it.repeat {
                        out.push_str(")*");
                    }
                    out.push_str(";\n");
                }
                out.push_str(" }");
            }
        }
    }
}

fn render_item(item: &TItem, out: &mut String) {
    match item {
        TItem::Nothing => {}
        TItem::One(t) => {
            out.push(' ');
            render_ty(t, out, false);
        }
        TItem::Seq(t) => {
            out.push_str(" (");
            render_ty(t, out, false);
            out.push_str(")*");
        }
    }
}

fn render_definition(d: &Definition, with_comments: bool) -> String {
    let mut out = String::new();
    if with_comments {
        out.push_str("/* generated A2ML */\n");
    }
    for t in &d.named {
        render_ty(t, &mut out, true);
        out.push_str(";\n");
        if with_comments {
            out.push_str("// a line comment\n");
        }
    }
    out.push_str("block \"IF_DATA\"");
    render_item(&d.top, &mut out);
    out.push_str(";\n");
    out
}

// ------------------------------------------------------------------------------------------------------------------
// definition generator

struct DefGen {
    rng: Rng,
    counter: usize,
    named: Vec<Ty>,
}

impl DefGen {
    fn fresh(&mut self, prefix: &str) -> String {
        self.counter += 1;
        format!("{prefix}{}", self.counter)
    }

    fn scalar(&mut self) -> Ty {
        Ty::Sc(ALL_SC[self.rng.below(ALL_SC.len())])
    }

    /// a type without tags that always consumes at least one token (admissible as sequence / array element)
    fn plain_ty(&mut self, depth: usize) -> Ty {
        match self.rng.below(if depth >= 3 { 4 } else { 6 }) {
            0 | 1 => self.scalar(),
            2 => Ty::Str(1 + self.rng.below(12)),
            3 => self.enum_ty(),
            4 => {
                let inner = match self.rng.below(3) {
                    0 => {
                        // char[n] is a string, so arrays are made of the other scalars
                        let mut s = self.scalar();
                        while matches!(s, Ty::Sc(Sc::Char)) {
                            s = self.scalar();
                        }
                        s
                    }
                    1 => Ty::Str(1 + self.rng.below(6)),
                    _ => self.enum_ty(),
                };
                Ty::Arr(Box::new(inner), 1 + self.rng.below(3))
            }
            _ => {
                // struct of plain members
                let mut members = vec![self.plain_ty(depth + 1)];
                for _ in 0..self.rng.below(3) {
                    members.push(self.plain_ty(depth + 1));
                }
                self.maybe_named(Ty::Struct(None, false, members))
            }
        }
    }

    fn enum_ty(&mut self) -> Ty {
        let n = 1 + self.rng.below(4);
        let mut items = Vec::new();
        for _ in 0..n {
            let name = self.fresh("EN_");
            let val = if self.rng.chance(50) { Some(self.rng.below(1000) as i32) } else { None };
            items.push((name, val));
        }
        self.maybe_named(Ty::Enum(None, false, items))
    }

    fn tagged_list(&mut self, depth: usize, allow_repeat: bool) -> Vec<Tagged> {
        let n = 1 + self.rng.below(4);
        let mut v = Vec::new();
        for _ in 0..n {
            let tag = self.fresh("TAG_");
            let block = self.rng.chance(45);
            let repeat = allow_repeat && self.rng.chance(30);
            let item = match self.rng.below(10) {
                0 => TItem::Nothing,
                1 | 2 | 3 => TItem::Seq(self.plain_ty(depth + 1)),
                _ => TItem::One(self.any_ty(depth + 1)),
            };
            // a keyword-form sequence is ended by the tag that follows it: its elements must not begin with an identifier
            let block = block || matches!(&item, TItem::Seq(t) if starts_with_enum(t));
            // C18-F2 (repeated tagged member without content, ("TAG")*; / (block "TAG")*;): repaired in /repo 4b79d74: generated and checked again
            v.push(Tagged { tag, block, repeat, item });
        }
        v
    }

    /// members of a struct. What follows a member that ends with tagged items must begin with an identifier (more tagged
    /// items or an enum), otherwise an open-ended sequence in the last tagged item would be ambiguous.
    fn struct_members(&mut self, depth: usize, n: usize, first_plain: bool) -> Vec<Ty> {
        let mut members: Vec<Ty> = Vec::new();
        for i in 0..n {
            let after_tagged = members.last().map_or(false, ends_tagged);
            let m = if i == 0 && first_plain {
                self.plain_ty(depth + 1)
            } else if after_tagged {
                if self.rng.chance(50) || depth + 1 >= 3 {
                    self.enum_ty()
                } else if self.rng.chance(50) {
                    let items = self.tagged_list(depth + 1, true);
                    Ty::TStruct(None, false, items)
                } else {
                    let items = self.tagged_list(depth + 1, false);
                    Ty::TUnion(None, false, items)
                }
            } else {
                self.any_ty(depth + 1)
            };
            members.push(m);
        }
        members
    }

    fn any_ty(&mut self, depth: usize) -> Ty {
        if depth >= 3 {
            return self.plain_ty(depth);
        }
        match self.rng.below(10) {
            0 | 1 | 2 => self.plain_ty(depth),
            3 | 4 => {
                let n = 1 + self.rng.below(3);
                let members = self.struct_members(depth, n, false);
                self.maybe_named(Ty::Struct(None, false, members))
            }
            5 | 6 | 7 => {
                let items = self.tagged_list(depth, true);
                self.maybe_named(Ty::TStruct(None, false, items))
            }
            _ => {
                let items = self.tagged_list(depth, false);
                self.maybe_named(Ty::TUnion(None, false, items))
            }
        }
    }

    /// with some probability: turn the type into a named top-level definition and use a reference to it;
    /// or give it a name in place (which defines nothing that could be referenced)
    fn maybe_named(&mut self, t: Ty) -> Ty {
        let r = self.rng.below(10);
        if r >= 5 {
            return t;
        }
        // A2ML keeps one name space per kind (enum / struct / taggedstruct / taggedunion): with some probability a top-level
        // definition reuses a name that is already defined for ANOTHER kind (and not yet for this one); references written
        // before and after the second declaration must still resolve to the type of their own kind
        let kind = match &t {
            Ty::Enum(..) => 0usize,
            Ty::Struct(..) => 1,
            Ty::TStruct(..) => 2,
            Ty::TUnion(..) => 3,
            _ => 4,
        };
        let mut name = self.fresh("Ty_");
        if r < 3 && kind < 4 && self.rng.below(3) == 0 {
            let kind_of = |x: &Ty| match x {
                Ty::Enum(Some(n), ..) => Some((0usize, n.clone())),
                Ty::Struct(Some(n), ..) => Some((1, n.clone())),
                Ty::TStruct(Some(n), ..) => Some((2, n.clone())),
                Ty::TUnion(Some(n), ..) => Some((3, n.clone())),
                _ => None,
            };
            let taken: Vec<(usize, String)> = self.named.iter().filter_map(kind_of).collect();
            let cands: Vec<String> = taken
                .iter()
                .filter(|(k, n)| *k != kind && !taken.iter().any(|(k2, n2)| *k2 == kind && n2 == n))
                .map(|(_, n)| n.clone())
                .collect();
            if !cands.is_empty() {
                name = cands[self.rng.below(cands.len())].clone();
            }
        }
        let (defined, used) = match t {
            Ty::Enum(_, _, items) => (Ty::Enum(Some(name.clone()), r < 3, items.clone()), Ty::Enum(Some(name), r < 3, items)),
            Ty::Struct(_, _, m) => (Ty::Struct(Some(name.clone()), r < 3, m.clone()), Ty::Struct(Some(name), r < 3, m)),
            Ty::TStruct(_, _, m) => (Ty::TStruct(Some(name.clone()), r < 3, m.clone()), Ty::TStruct(Some(name), r < 3, m)),
            Ty::TUnion(_, _, m) => (Ty::TUnion(Some(name.clone()), r < 3, m.clone()), Ty::TUnion(Some(name), r < 3, m)),
            other => return other,
        };
        if r < 3 {
            // everything the definition refers to has been declared before (it was generated before)
            self.named.push(defined);
        }
        used
    }

    fn definition(&mut self, top_kind: usize) -> Definition {
        self.named.clear();
        let top = match top_kind {
            // by convention IF_DATA holds a taggedunion
            0 | 1 | 2 | 3 => {
                let items = self.tagged_list(0, false);
                TItem::One(self.maybe_named(Ty::TUnion(None, false, items)))
            }
            4 | 5 => {
                let items = self.tagged_list(0, true);
                TItem::One(self.maybe_named(Ty::TStruct(None, false, items)))
            }
            6 => {
                let n = 2 + self.rng.below(3);
                let members = self.struct_members(0, n, true);
                TItem::One(Ty::Struct(None, false, members))
            }
            7 => TItem::Seq(self.plain_ty(1)),
            _ => TItem::One(self.plain_ty(1)),
        };
        Definition { named: std::mem::take(&mut self.named), top }
    }
}

fn ends_tagged(t: &Ty) -> bool {
    match t {
        Ty::TStruct(..) | Ty::TUnion(..) => true,
        Ty::Struct(_, _, m) => m.last().map_or(false, ends_tagged),
        _ => false,
    }
}

fn starts_with_enum(t: &Ty) -> bool {
    match t {
        Ty::Enum(..) => true,
        Ty::Arr(i, _) => starts_with_enum(i),
        Ty::Struct(_, _, m) => m.first().map_or(false, starts_with_enum),
        _ => false,
    }
}

fn has_string(t: &Ty) -> bool {
    match t {
        Ty::Sc(_) | Ty::Enum(..) => false,
        Ty::Str(_) => true,
        Ty::Arr(i, _) => has_string(i),
        Ty::Struct(_, _, m) => m.iter().any(has_string),
        Ty::TStruct(_, _, items) | Ty::TUnion(_, _, items) => items.iter().any(|i| item_has_string(&i.item)),
    }
}
fn item_has_string(i: &TItem) -> bool {
    match i {
        TItem::Nothing => false,
        TItem::One(t) | TItem::Seq(t) => has_string(t),
    }
}

/// first leaf of the type is a string (only asked for plain types)
fn starts_with_string(t: &Ty) -> bool {
    match t {
        Ty::Str(_) => true,
        Ty::Arr(i, _) => starts_with_string(i),
        Ty::Struct(_, _, m) => m.first().map_or(false, starts_with_string),
        _ => false,
    }
}

/// CANDIDATE-FINDING C18-F1: in non-strict mode a keyword-form (non-block) tagged item whose content is a sequence of
/// elements that begin with a string swallows the tag that follows it (an identifier is tolerated in place of a string),
/// and the conforming IF_DATA is flagged invalid. Definitions with this shape are only used with strict loading.
fn has_open_string_sequence(t: &Ty) -> bool {
    match t {
        Ty::Sc(_) | Ty::Enum(..) | Ty::Str(_) => false,
        Ty::Arr(i, _) => has_open_string_sequence(i),
        Ty::Struct(_, _, m) => m.iter().any(has_open_string_sequence),
        Ty::TStruct(_, _, items) | Ty::TUnion(_, _, items) => items.iter().any(|i| match &i.item {
            TItem::Nothing => false,
            TItem::One(t) => has_open_string_sequence(t),
            TItem::Seq(t) => (!i.block && starts_with_string(t)) || has_open_string_sequence(t),
        }),
    }
}

// ------------------------------------------------------------------------------------------------------------------
// instances

#[derive(Clone, Debug, PartialEq)]
enum Leaf {
    I(&'static str, i128, bool), // type name, value, hexadecimal notation
    F32(u32),
    F64(u64),
    S(String),
    E(String),
    Tag(String, bool),
    Len(&'static str, usize), // number of elements of a sequence / array / taggedstruct / taggedunion
}

#[derive(Clone, Copy, Debug, PartialEq)]
enum Cmp {
    Exact,
    Int,
    F32,
    F64,
}

#[derive(Clone, Copy, Debug, PartialEq)]
enum TokKind {
    IntLeaf(Sc),
    FloatLeaf,
    StrLeaf,
    EnumLeaf,
    Tag,
    Other,
}

#[derive(Clone, Debug)]
struct Tok {
    text: String,
    cmp: Cmp,
    kind: TokKind,
    // for the tag of a tagged item: index behind the last token of the item (behind "/end TAG" for a block)
    item_end: usize,
}

struct InstGen<'a> {
    rng: &'a mut Rng,
    toks: Vec<Tok>,
    leaves: Vec<Leaf>,
}

fn int_bounds(bits: u32, signed: bool) -> (i128, i128) {
    if signed {
        (-(1i128 << (bits - 1)), (1i128 << (bits - 1)) - 1)
    } else {
        (0, (1i128 << bits) - 1)
    }
}

impl InstGen<'_> {
    fn tok(&mut self, text: String, cmp: Cmp, kind: TokKind) {
        self.toks.push(Tok { text, cmp, kind, item_end: 0 });
    }

    fn int_value(&mut self, s: Sc) {
        let (bits, signed) = sc_int(s).unwrap();
        let (lo, hi) = int_bounds(bits, signed);
        let val: i128 = match self.rng.below(8) {
            0 => lo,
            1 => hi,
            2 => 0,
            3 => hi - 1,
            4 => lo + 1,
            5 => ((self.rng.next() % 200) as i128).min(hi),
            _ => {
                let span = (hi - lo + 1) as u128;
                lo + ((((self.rng.next() as u128) << 64) | self.rng.next() as u128) % span) as i128
            }
        };
        let hex = self.rng.chance(40);
        let text = if hex {
            // hexadecimal: the bit pattern in the width of the type
            let pattern = if val < 0 { (val + (1i128 << bits)) as u128 } else { val as u128 };
            match self.rng.below(3) {
                0 => format!("0x{pattern:X}"),
                1 => format!("0x{pattern:x}"),
                _ => format!("0X{pattern:0width$X}", width = (bits / 4) as usize),
            }
        } else {
            format!("{val}")
        };
        self.tok(text, Cmp::Int, TokKind::IntLeaf(s));
        self.leaves.push(Leaf::I(sc_name(s), val, hex));
    }

    fn float_value(&mut self, double: bool) {
        const TEXTS: [&str; 16] = [
            "0", "1", "-1", "1.5", "-0.25", "0.1", "3.14159", "1e10", "1.5e-7", "-2.5E3", "123456.789", "1e-5", "16777217", "0.0001", "99999999999", "-7.0e+2",
        ];
        let mut text = TEXTS[self.rng.below(TEXTS.len())].to_string();
        if double && self.rng.chance(20) {
            text = ["1e100", "-1.7976931348623157e308", "4.9e-324", "0.30000000000000004", "9007199254740993"][self.rng.below(5)].to_string();
        } else if !double && self.rng.chance(10) {
            text = ["3.4028235e38", "-3.4028235e38", "1.17549435e-38"][self.rng.below(3)].to_string();
        }
        if double {
            let v: f64 = text.parse().unwrap();
            self.leaves.push(Leaf::F64(v.to_bits()));
            self.tok(text, Cmp::F64, TokKind::FloatLeaf);
        } else {
            let v: f32 = text.parse().unwrap();
            self.leaves.push(Leaf::F32(v.to_bits()));
            self.tok(text, Cmp::F32, TokKind::FloatLeaf);
        }
    }

    fn string_value(&mut self, maxlen: usize) {
        const PIECES: [&str; 8] = ["a", "Z", "9", " ", "_", "ä", "/", "x y"];
        let mut s = String::new();
        let want = match self.rng.below(4) {
            0 => 0,
            1 => maxlen,
            _ => self.rng.below(maxlen + 1),
        };
        while s.len() < want {
            let p = PIECES[self.rng.below(PIECES.len())];
            if s.len() + p.len() > maxlen {
                if s.len() + 1 <= maxlen {
                    s.push('q');
                }
                continue;
            }
            s.push_str(p);
        }
        self.leaves.push(Leaf::S(s.clone()));
        self.tok(format!("\"{s}\""), Cmp::Exact, TokKind::StrLeaf);
    }

    fn ty(&mut self, t: &Ty) {
        match t {
            Ty::Sc(Sc::Float) => self.float_value(false),
            Ty::Sc(Sc::Double) => self.float_value(true),
            Ty::Sc(s) => self.int_value(*s),
            Ty::Str(n) => self.string_value(*n),
            Ty::Arr(inner, n) => {
                self.leaves.push(Leaf::Len("arr", *n));
                for _ in 0..*n {
                    self.ty(inner);
                }
            }
            Ty::Enum(_, _, items) => {
                let (name, _) = &items[self.rng.below(items.len())];
                self.leaves.push(Leaf::E(name.clone()));
                self.tok(name.clone(), Cmp::Exact, TokKind::EnumLeaf);
            }
            Ty::Struct(_, _, members) => {
                for m in members {
                    self.ty(m);
                }
            }
            Ty::TStruct(_, _, items) => {
                let mut occ: Vec<usize> = Vec::new();
                for (i, it) in items.iter().enumerate() {
                    let n = if it.repeat { self.rng.below(4) } else { self.rng.below(5).min(1) };
                    for _ in 0..n {
                        occ.push(i);
                    }
                }
                for i in (1..occ.len()).rev() {
                    let j = self.rng.below(i + 1);
                    occ.swap(i, j);
                }
                self.leaves.push(Leaf::Len("ts", occ.len()));
                for i in occ {
                    self.tagged(&items[i]);
                }
            }
            Ty::TUnion(_, _, items) => {
                if self.rng.chance(8) {
                    self.leaves.push(Leaf::Len("tu", 0));
                } else {
                    self.leaves.push(Leaf::Len("tu", 1));
                    let it = &items[self.rng.below(items.len())];
                    self.tagged(it);
                }
            }
        }
    }

    fn tagged(&mut self, it: &Tagged) {
        if it.block {
            self.tok("/begin".to_string(), Cmp::Exact, TokKind::Other);
        }
        self.tok(it.tag.clone(), Cmp::Exact, TokKind::Tag);
        let tag_pos = self.toks.len() - 1;
        self.leaves.push(Leaf::Tag(it.tag.clone(), it.block));
        self.item(&it.item);
        if it.block {
            self.tok("/end".to_string(), Cmp::Exact, TokKind::Other);
            self.tok(it.tag.clone(), Cmp::Exact, TokKind::Other);
        }
        self.toks[tag_pos].item_end = self.toks.len();
    }

    fn item(&mut self, item: &TItem) {
        match item {
            TItem::Nothing => {}
            TItem::One(t) => self.ty(t),
            TItem::Seq(t) => {
                let n = self.rng.below(4);
                self.leaves.push(Leaf::Len("seq", n));
                for _ in 0..n {
                    self.ty(t);
                }
            }
        }
    }
}

#[derive(Clone, Debug)]
struct Instance {
    toks: Vec<Tok>,
    leaves: Vec<Leaf>,
    conforming: bool,
    deviation: String,
}

/// a conforming, non-empty instance of the definition
fn gen_instance(rng: &mut Rng, d: &Definition) -> Option<Instance> {
    for _ in 0..30 {
        let mut g = InstGen { rng, toks: vec![], leaves: vec![] };
        g.item(&d.top);
        if !g.toks.is_empty() {
            // an IF_DATA block without content is never interpreted (it is kept, flagged invalid): not generated,
            // see notes (CANDIDATE-FINDING C18-F3)
            return Some(Instance { toks: g.toks, leaves: g.leaves, conforming: true, deviation: String::new() });
        }
    }
    None
}

/// a single-token deviation that keeps /begin and /end balanced and cannot be matched by the definition
fn deviate(rng: &mut Rng, inst: &Instance, identifiers_allowed: bool) -> Option<Instance> {
    let mut candidates: Vec<(usize, &'static str)> = Vec::new();
    for (i, t) in inst.toks.iter().enumerate() {
        match t.kind {
            TokKind::IntLeaf(_) => {
                candidates.push((i, "int->string"));
                candidates.push((i, "int->float"));
                candidates.push((i, "int->out-of-range"));
            }
            TokKind::FloatLeaf => candidates.push((i, "float->string")),
            TokKind::StrLeaf => candidates.push((i, "string->number")),
            TokKind::EnumLeaf => {
                if identifiers_allowed {
                    candidates.push((i, "enum->unknown-item"));
                }
                candidates.push((i, "enum->number"));
            }
            TokKind::Tag => {
                let is_block = i > 0 && inst.toks[i - 1].text == "/begin";
                if identifiers_allowed {
                    candidates.push((i, "tag->unknown-tag"));
                }
                // the definition fixes whether a tagged item is a block. (More than one token changes, /begin and /end
                // stay balanced.)
                if !is_block {
                    candidates.push((i, "keyword-item-written-as-block"));
                } else if identifiers_allowed {
                    candidates.push((i, "block-item-written-as-keyword"));
                }
            }
            TokKind::Other => {}
        }
    }
    if identifiers_allowed {
        candidates.push((inst.toks.len(), "extra-identifier-at-end"));
    }
    if candidates.is_empty() {
        return None;
    }
    let (pos, what) = candidates[rng.below(candidates.len())];
    let mut toks = inst.toks.clone();
    match what {
        "int->string" | "float->string" => toks[pos] = Tok { text: "\"dev\"".into(), cmp: Cmp::Exact, kind: TokKind::Other, item_end: 0 },
        "int->float" => toks[pos] = Tok { text: "1.5".into(), cmp: Cmp::F64, kind: TokKind::Other, item_end: 0 },
        "int->out-of-range" => {
            let s = if let TokKind::IntLeaf(s) = toks[pos].kind { s } else { unreachable!() };
            let (bits, signed) = sc_int(s).unwrap();
            let (lo, hi) = int_bounds(bits, signed);
            let text = match (bits, rng.below(3)) {
                (64, _) if signed => "9223372036854775808".to_string(), // 2^63
                (64, _) => "18446744073709551616".to_string(),           // 2^64
                (_, 0) => format!("{}", hi + 1),
                (_, 1) => format!("{}", lo - 1),
                (_, _) => format!("0x1{:0width$X}", 0, width = (bits / 4) as usize), // one hex digit too many
            };
            // 2^64 does not fit any integer type: the uninterpreted data keeps it as a floating point number
            let cmp = if text == "18446744073709551616" { Cmp::F64 } else { Cmp::Int };
            toks[pos] = Tok { text, cmp, kind: TokKind::Other, item_end: 0 };
        }
        "string->number" | "enum->number" => toks[pos] = Tok { text: "77".into(), cmp: Cmp::Int, kind: TokKind::Other, item_end: 0 },
        "enum->unknown-item" => toks[pos] = Tok { text: "EN_UNKNOWN_ITEM".into(), cmp: Cmp::Exact, kind: TokKind::Other, item_end: 0 },
        "tag->unknown-tag" => {
            let old = toks[pos].text.clone();
            let is_block = pos > 0 && toks[pos - 1].text == "/begin";
            toks[pos].text = "TAG_UNKNOWN".into();
            if is_block {
                // keep the block balanced: rename the matching end tag as well (it is part of the same "tag")
                let mut depth = 0;
                for j in pos + 1..toks.len() {
                    if toks[j].text == "/begin" {
                        depth += 1;
                    } else if toks[j].text == "/end" {
                        if depth == 0 {
                            assert_eq!(toks[j + 1].text, old);
                            toks[j + 1].text = "TAG_UNKNOWN".into();
                            break;
                        }
                        depth -= 1;
                    }
                }
            }
        }
        "keyword-item-written-as-block" => {
            let end = toks[pos].item_end;
            let tag = toks[pos].text.clone();
            toks.insert(end, Tok { text: tag, cmp: Cmp::Exact, kind: TokKind::Other, item_end: 0 });
            toks.insert(end, Tok { text: "/end".into(), cmp: Cmp::Exact, kind: TokKind::Other, item_end: 0 });
            toks.insert(pos, Tok { text: "/begin".into(), cmp: Cmp::Exact, kind: TokKind::Other, item_end: 0 });
        }
        "block-item-written-as-keyword" => {
            let end = toks[pos].item_end;
            assert_eq!(toks[end - 2].text, "/end");
            assert_eq!(toks[pos - 1].text, "/begin");
            toks.remove(end - 1);
            toks.remove(end - 2);
            toks.remove(pos - 1);
        }
        "extra-identifier-at-end" => toks.push(Tok { text: "EXTRA_IDENT".into(), cmp: Cmp::Exact, kind: TokKind::Other, item_end: 0 }),
        _ => unreachable!(),
    }
    // the data is now uninterpreted: floating point numbers are kept as doubles
    for t in toks.iter_mut() {
        if t.cmp == Cmp::F32 {
            t.cmp = Cmp::F64;
        }
    }
    Some(Instance { toks, leaves: vec![], conforming: false, deviation: format!("{what}@{pos}") })
}

fn render_instance(rng: &mut Rng, inst: &Instance) -> String {
    let mut s = String::from("/begin IF_DATA");
    let comments = rng.chance(30);
    for t in &inst.toks {
        s.push(if rng.chance(15) { '\n' } else { ' ' });
        // C18-F5 (uninterpreted IF_DATA, comment between "/end TAG" and the next "/begin"): repaired in /repo 182b4fe: generated and checked again
        if comments && rng.chance(15) {
            // comments are not part of the data
            s.push_str(if rng.chance(50) { "/* a comment */ " } else { "// a comment\n" });
        }
        s.push_str(&t.text);
    }
    s.push_str(if rng.chance(50) { "\n" } else { " " });
    // C18-F4 (comment directly in front of "/end IF_DATA"): repaired in /repo 7aa9d8e: generated and checked again
    if comments && rng.chance(15) {
        s.push_str(if rng.chance(50) { "/* a comment */ " } else { "// a comment\n" });
    }
    s.push_str("/end IF_DATA");
    s
}

// ------------------------------------------------------------------------------------------------------------------
// documents

const HOSTS: [(&str, &str, &str); 11] = [
    ("MODULE", "", ""),
    ("MEMORY_LAYOUT", "/begin MEMORY_LAYOUT PRG_DATA 0x0 0x100 -1 -1 -1 -1 -1", "/end MEMORY_LAYOUT"),
    ("MEMORY_SEGMENT", "/begin MEMORY_SEGMENT seg \"\" DATA RAM INTERN 0x0 0x100 -1 -1 -1 -1 -1", "/end MEMORY_SEGMENT"),
    ("AXIS_PTS", "/begin AXIS_PTS ap \"\" 0x100 iq rl 0 cm 5 0 10", "/end AXIS_PTS"),
    ("BLOB", "/begin BLOB bl \"\" 0x100 16", "/end BLOB"),
    ("CHARACTERISTIC", "/begin CHARACTERISTIC ch \"\" VALUE 0x100 rl 0 cm 0 10", "/end CHARACTERISTIC"),
    ("FRAME", "/begin FRAME fr \"\" 1 10", "/end FRAME"),
    ("FUNCTION", "/begin FUNCTION fnc \"\"", "/end FUNCTION"),
    ("GROUP", "/begin GROUP gr \"\"", "/end GROUP"),
    ("INSTANCE", "/begin INSTANCE inst \"\" ts 0x100", "/end INSTANCE"),
    ("MEASUREMENT", "/begin MEASUREMENT me \"\" UBYTE cm 0 0 0 255", "/end MEASUREMENT"),
];

#[derive(Clone)]
struct Placed {
    host: usize,
    inst: Instance,
    text: String,
}

/// returns the text and the comparison tokens of the document; `only_conforming` leaves the deviating blocks out
fn build_doc(a2ml: Option<&str>, blocks: &[Placed], only_conforming: bool) -> (String, Vec<(String, Cmp)>) {
    let mut text = String::new();
    let mut toks: Vec<(String, Cmp)> = Vec::new();
    let add = |text: &mut String, toks: &mut Vec<(String, Cmp)>, piece: &str| {
        text.push_str(piece);
        text.push('\n');
        for t in split_tokens(piece) {
            toks.push((t, Cmp::Exact));
        }
    };
    add(&mut text, &mut toks, "ASAP2_VERSION 1 71");
    add(&mut text, &mut toks, "/begin PROJECT p \"\"");
    add(&mut text, &mut toks, "/begin MODULE m \"\"");
    if let Some(a) = a2ml {
        add(&mut text, &mut toks, &format!("/begin A2ML\n{a}/end A2ML"));
    }
    for (h, (_, open, close)) in HOSTS.iter().enumerate() {
        if h == 1 {
            add(&mut text, &mut toks, "/begin MOD_PAR \"\"");
        }
        if !open.is_empty() {
            add(&mut text, &mut toks, open);
        }
        for b in blocks.iter().filter(|b| b.host == h) {
            if only_conforming && !b.inst.conforming {
                continue;
            }
            text.push_str(&b.text);
            text.push('\n');
            toks.push(("/begin".into(), Cmp::Exact));
            toks.push(("IF_DATA".into(), Cmp::Exact));
            for t in &b.inst.toks {
                toks.push((t.text.clone(), t.cmp));
            }
            toks.push(("/end".into(), Cmp::Exact));
            toks.push(("IF_DATA".into(), Cmp::Exact));
        }
        if !close.is_empty() {
            add(&mut text, &mut toks, close);
        }
        if h == 2 {
            add(&mut text, &mut toks, "/end MOD_PAR");
        }
    }
    add(&mut text, &mut toks, "/end MODULE");
    add(&mut text, &mut toks, "/end PROJECT");
    (text, toks)
}

/// whitespace separated tokens; strings are one token; comments are dropped
fn split_tokens(text: &str) -> Vec<String> {
    let b = text.as_bytes();
    let mut out = Vec::new();
    let mut i = 0;
    while i < b.len() {
        if b[i].is_ascii_whitespace() {
            i += 1;
        } else if b[i] == b'/' && i + 1 < b.len() && b[i + 1] == b'*' {
            i += 2;
            while i + 1 < b.len() && !(b[i] == b'*' && b[i + 1] == b'/') {
                i += 1;
            }
            i += 2;
        } else if b[i] == b'/' && i + 1 < b.len() && b[i + 1] == b'/' {
            while i < b.len() && b[i] != b'\n' {
                i += 1;
            }
        } else if b[i] == b'"' {
            let start = i;
            i += 1;
            while i < b.len() && b[i] != b'"' {
                i += 1;
            }
            i += 1;
            out.push(String::from_utf8_lossy(&b[start..i.min(b.len())]).to_string());
        } else {
            let start = i;
            while i < b.len() && !b[i].is_ascii_whitespace() && b[i] != b'"' {
                i += 1;
            }
            out.push(String::from_utf8_lossy(&b[start..i]).to_string());
        }
    }
    out
}

fn parse_int_text(t: &str) -> Option<(u128, bool, bool)> {
    // (magnitude or bit pattern, negative, hexadecimal)
    if let Some(h) = t.strip_prefix("0x").or_else(|| t.strip_prefix("0X")) {
        u128::from_str_radix(h, 16).ok().map(|v| (v, false, true))
    } else if let Some(n) = t.strip_prefix('-') {
        n.parse::<u128>().ok().map(|v| (v, true, false))
    } else {
        t.parse::<u128>().ok().map(|v| (v, false, false))
    }
}

fn tok_matches(orig: &str, cmp: Cmp, written: &str) -> bool {
    if orig == written {
        return true;
    }
    match cmp {
        Cmp::Exact => {
            // elements outside IF_DATA: numbers may be reformatted
            match (orig.parse::<f64>(), written.parse::<f64>()) {
                (Ok(a), Ok(b)) => a == b,
                _ => false,
            }
        }
        // integers keep value and notation (case of the hex digits and leading zeros are not part of the notation)
        Cmp::Int => match (parse_int_text(orig), parse_int_text(written)) {
            (Some(a), Some(b)) => a == b,
            _ => false,
        },
        Cmp::F32 => match (orig.parse::<f32>(), written.parse::<f32>()) {
            (Ok(a), Ok(b)) => a.to_bits() == b.to_bits(),
            _ => false,
        },
        Cmp::F64 => match (orig.parse::<f64>(), written.parse::<f64>()) {
            (Ok(a), Ok(b)) => a.to_bits() == b.to_bits(),
            _ => false,
        },
    }
}

fn compare_written(case: &str, what: &str, expected: &[(String, Cmp)], written: &str) -> Result<(), Fail> {
    let w = split_tokens(written);
    let n = expected.len().min(w.len());
    for i in 0..n {
        if !tok_matches(&expected[i].0, expected[i].1, &w[i]) {
            let ctx_e: Vec<&str> = expected[i.saturating_sub(3)..(i + 3).min(expected.len())].iter().map(|t| t.0.as_str()).collect();
            let ctx_w: Vec<&str> = w[i.saturating_sub(3)..(i + 3).min(w.len())].iter().map(|t| t.as_str()).collect();
            return fail(case, what, format!("token {i}: expected ..{}.. written ..{}..", ctx_e.join(" "), ctx_w.join(" ")));
        }
    }
    if expected.len() != w.len() {
        return fail(case, what, format!("{} tokens expected, {} written", expected.len(), w.len()));
    }
    Ok(())
}

// ------------------------------------------------------------------------------------------------------------------
// observation of the loaded model

fn flatten(d: &GenericIfData, out: &mut Vec<Leaf>) {
    match d {
        GenericIfData::None => {}
        GenericIfData::Char(_, (v, h)) => out.push(Leaf::I("char", *v as i128, *h)),
        GenericIfData::Int(_, (v, h)) => out.push(Leaf::I("int", *v as i128, *h)),
        GenericIfData::Long(_, (v, h)) => out.push(Leaf::I("long", *v as i128, *h)),
        GenericIfData::Int64(_, (v, h)) => out.push(Leaf::I("int64", *v as i128, *h)),
        GenericIfData::UChar(_, (v, h)) => out.push(Leaf::I("uchar", *v as i128, *h)),
        GenericIfData::UInt(_, (v, h)) => out.push(Leaf::I("uint", *v as i128, *h)),
        GenericIfData::ULong(_, (v, h)) => out.push(Leaf::I("ulong", *v as i128, *h)),
        GenericIfData::UInt64(_, (v, h)) => out.push(Leaf::I("uint64", *v as i128, *h)),
        GenericIfData::Float(_, v) => out.push(Leaf::F32(v.to_bits())),
        GenericIfData::Double(_, v) => out.push(Leaf::F64(v.to_bits())),
        GenericIfData::String(_, s) => out.push(Leaf::S(s.clone())),
        GenericIfData::EnumItem(_, s) => out.push(Leaf::E(s.clone())),
        GenericIfData::Array(items) => {
            out.push(Leaf::Len("arr", items.len()));
            for i in items {
                flatten(i, out);
            }
        }
        GenericIfData::Sequence(items) => {
            out.push(Leaf::Len("seq", items.len()));
            for i in items {
                flatten(i, out);
            }
        }
        GenericIfData::Struct(_, _, items) | GenericIfData::Block { items, .. } => {
            for i in items {
                flatten(i, out);
            }
        }
        GenericIfData::TaggedStruct(map) | GenericIfData::TaggedUnion(map) => {
            // the items are stored under their tag
            for (key, items) in map {
                for i in items {
                    if i.tag != *key {
                        out.push(Leaf::S(format!("item with tag {} is stored under key {key}", i.tag)));
                    }
                }
            }
            let mut all: Vec<&GenericIfDataTaggedItem> = map.values().flat_map(|v| v.iter()).collect();
            all.sort_by_key(|i| i.uid);
            out.push(Leaf::Len(if matches!(d, GenericIfData::TaggedStruct(_)) { "ts" } else { "tu" }, all.len()));
            for i in all {
                out.push(Leaf::Tag(i.tag.clone(), i.is_block));
                flatten(&i.data, out);
            }
        }
    }
}

/// the IF_DATA lists of the eleven hosts, in the order of HOSTS
fn ifdata_lists(a: &A2lFile) -> Result<Vec<&Vec<IfData>>, String> {
    let m = a.project.module.iter().next().ok_or("no module")?;
    let mp = m.mod_par.as_ref().ok_or("MOD_PAR lost")?;
    let mut v: Vec<&Vec<IfData>> = vec![&m.if_data];
    v.push(&mp.memory_layout.first().ok_or("MEMORY_LAYOUT lost")?.if_data);
    v.push(&mp.memory_segment.iter().next().ok_or("MEMORY_SEGMENT lost")?.if_data);
    v.push(&m.axis_pts.iter().next().ok_or("AXIS_PTS lost")?.if_data);
    v.push(&m.blob.iter().next().ok_or("BLOB lost")?.if_data);
    v.push(&m.characteristic.iter().next().ok_or("CHARACTERISTIC lost")?.if_data);
    v.push(&m.frame.iter().next().ok_or("FRAME lost")?.if_data);
    v.push(&m.function.iter().next().ok_or("FUNCTION lost")?.if_data);
    v.push(&m.group.iter().next().ok_or("GROUP lost")?.if_data);
    v.push(&m.instance.iter().next().ok_or("INSTANCE lost")?.if_data);
    v.push(&m.measurement.iter().next().ok_or("MEASUREMENT lost")?.if_data);
    Ok(v)
}

// ------------------------------------------------------------------------------------------------------------------
// the check of one document

#[derive(Clone, Copy, Debug, PartialEq)]
enum Supply {
    InFile,
    BuiltIn,
    Both,
}

struct Case {
    id: String,
    supply: Supply,
    builtin: Option<String>, // text passed as a2ml_spec
    infile: Option<String>,  // text of the A2ML block
    blocks: Vec<Placed>,
    strict: bool,
}

fn check_case(c: &Case) -> Result<(), Fail> {
    let id = &c.id;
    let (text, toks) = build_doc(c.infile.as_deref(), &c.blocks, false);
    let (a, warnings) = match a2lfile::load_from_string(&text, c.builtin.clone(), c.strict) {
        Ok(x) => x,
        Err(e) => return fail(&format!("{id}/load"), "document loads (IF_DATA that does not conform is kept as uninterpreted data)", format!("error: {e}")),
    };
    let all_conforming = c.blocks.iter().all(|b| b.inst.conforming);
    if all_conforming && !warnings.is_empty() {
        return fail(&format!("{id}/warnings"), "conforming IF_DATA: no warnings", format!("{} warnings, first: {}", warnings.len(), warnings[0]));
    }

    // 1. validity flags and interpreted values
    let check_model = |a: &A2lFile, stage: &str, blocks: &[&Placed]| -> Result<(), Fail> {
        let lists = ifdata_lists(a).map_err(|e| Fail { case: format!("{id}/{stage}-structure"), expected: "all host elements present".into(), happened: e })?;
        for (h, list) in lists.iter().enumerate() {
            let expected: Vec<&&Placed> = blocks.iter().filter(|b| b.host == h).collect();
            if expected.len() != list.len() {
                return fail(&format!("{id}/{stage}-count"), &format!("{} IF_DATA block(s) in {}", expected.len(), HOSTS[h].0), format!("{} block(s)", list.len()));
            }
            for (k, (exp, got)) in expected.iter().zip(list.iter()).enumerate() {
                if got.ifdata_valid != exp.inst.conforming {
                    return fail(
                        &format!("{id}/{stage}-valid-flag"),
                        &format!("IF_DATA #{k} in {} ({}) flagged {}", HOSTS[h].0, if exp.inst.conforming { "conforming".to_string() } else { format!("deviation {}", exp.inst.deviation) }, if exp.inst.conforming { "valid" } else { "invalid" }),
                        format!("ifdata_valid = {}; block: {}", got.ifdata_valid, exp.text.replace('\n', " ")),
                    );
                }
                if exp.inst.conforming {
                    let mut leaves = Vec::new();
                    match &got.ifdata_items {
                        Some(items) => flatten(items, &mut leaves),
                        None => return fail(&format!("{id}/{stage}-items"), "interpreted IF_DATA has content", "ifdata_items is None".into()),
                    }
                    if leaves != exp.inst.leaves {
                        let pos = leaves.iter().zip(exp.inst.leaves.iter()).position(|(a, b)| a != b).unwrap_or(leaves.len().min(exp.inst.leaves.len()));
                        return fail(
                            &format!("{id}/{stage}-values"),
                            &format!("IF_DATA #{k} in {}: value {pos} is {:?}", HOSTS[h].0, exp.inst.leaves.get(pos)),
                            format!("{:?}; block: {}", leaves.get(pos), exp.text.replace('\n', " ")),
                        );
                    }
                } else if got.ifdata_items.is_none() {
                    return fail(&format!("{id}/{stage}-kept"), "non-conforming IF_DATA is kept as uninterpreted data", "ifdata_items is None".into());
                }
            }
        }
        Ok(())
    };
    let all: Vec<&Placed> = c.blocks.iter().collect();
    check_model(&a, "load", &all)?;

    // 2. write: every token survives (integers with their notation)
    let written = a.write_to_string();
    compare_written(&format!("{id}/written"), "written text has the tokens of the input (numbers by value, integers with notation)", &toks, &written)?;

    // 3. load the written text again: same interpretation
    match a2lfile::load_from_string(&written, c.builtin.clone(), c.strict) {
        Ok((a2, _)) => check_model(&a2, "reload", &all)?,
        Err(e) => return fail(&format!("{id}/reload"), "written text loads again", format!("error: {e}")),
    }

    // 4. ifdata_cleanup removes exactly the invalid blocks
    let mut cleaned = a;
    cleaned.ifdata_cleanup();
    let conforming: Vec<&Placed> = c.blocks.iter().filter(|b| b.inst.conforming).collect();
    check_model(&cleaned, "cleanup", &conforming)?;
    let (_, toks_clean) = build_doc(c.infile.as_deref(), &c.blocks, true);
    compare_written(&format!("{id}/cleanup-written"), "after ifdata_cleanup() the written text is the input without the non-conforming IF_DATA blocks", &toks_clean, &cleaned.write_to_string())?;
    // cleanup is idempotent
    let before = cleaned.write_to_string();
    cleaned.ifdata_cleanup();
    if cleaned.write_to_string() != before {
        return fail(&format!("{id}/cleanup-twice"), "a second ifdata_cleanup() changes nothing", "written text changed".into());
    }
    let _ = c.supply;
    Ok(())
}

fn run_case(rep: &mut Report, c: Case) {
    let (text, _) = build_doc(c.infile.as_deref(), &c.blocks, false);
    let input = match &c.builtin {
        Some(b) => format!("a2ml_spec argument:\n{b}\n=== strict={} document:\n{text}", c.strict),
        None => format!("strict={} document:\n{text}", c.strict),
    };
    let id = c.id.clone();
    rep.run(&id, &input, move || check_case(&c));
}

// ------------------------------------------------------------------------------------------------------------------
// phase 1: a fixed definition with every scalar type, every host, every kind of deviation

fn fixed_definition() -> Definition {
    let en = Ty::Enum(Some("Ty_Mode".into()), true, vec![("EN_OFF".into(), Some(0)), ("EN_ON".into(), Some(1)), ("EN_AUTO".into(), None)]);
    let pair = Ty::Struct(Some("Ty_Pair".into()), true, vec![Ty::Str(4), Ty::Sc(Sc::UInt)]);
    let mut scalars: Vec<Tagged> = ALL_SC
        .iter()
        .map(|s| Tagged { tag: format!("TAG_{}", sc_name(*s).to_uppercase()), block: false, repeat: false, item: TItem::One(Ty::Sc(*s)) })
        .collect();
    scalars.push(Tagged { tag: "TAG_STRING".into(), block: false, repeat: false, item: TItem::One(Ty::Str(8)) });
    scalars.push(Tagged { tag: "TAG_ENUM".into(), block: false, repeat: false, item: TItem::One(en.clone()) });
    scalars.push(Tagged { tag: "TAG_ARRAY".into(), block: false, repeat: false, item: TItem::One(Ty::Arr(Box::new(Ty::Sc(Sc::UInt)), 3)) });
    scalars.push(Tagged { tag: "TAG_STRINGS".into(), block: false, repeat: false, item: TItem::One(Ty::Arr(Box::new(Ty::Str(3)), 2)) });
    scalars.push(Tagged { tag: "TAG_NONE".into(), block: false, repeat: false, item: TItem::Nothing });
    scalars.push(Tagged { tag: "TAG_PAIRS".into(), block: true, repeat: true, item: TItem::Seq(pair.clone()) });
    scalars.push(Tagged { tag: "TAG_NUMBERS".into(), block: false, repeat: false, item: TItem::Seq(Ty::Sc(Sc::Long)) });
    scalars.push(Tagged {
        tag: "TAG_NESTED".into(),
        block: true,
        repeat: true,
        item: TItem::One(Ty::Struct(
            None,
            false,
            vec![
                Ty::Sc(Sc::UChar),
                Ty::TStruct(
                    None,
                    false,
                    vec![
                        Tagged { tag: "TAG_INNER".into(), block: false, repeat: true, item: TItem::One(Ty::TStruct(None, false, vec![Tagged { tag: "TAG_DEEP".into(), block: false, repeat: false, item: TItem::One(Ty::Sc(Sc::Int)) }])) },
                        Tagged { tag: "TAG_AFTER".into(), block: false, repeat: false, item: TItem::One(Ty::Sc(Sc::Int)) },
                        Tagged { tag: "TAG_BLOCK".into(), block: true, repeat: false, item: TItem::One(Ty::TUnion(None, false, vec![Tagged { tag: "TAG_U1".into(), block: false, repeat: false, item: TItem::One(Ty::Sc(Sc::Float)) }, Tagged { tag: "TAG_U2".into(), block: true, repeat: false, item: TItem::Nothing }])) },
                    ],
                ),
                en.clone(),
            ],
        )),
    });
    let ts = Ty::TStruct(Some("Ty_All".into()), true, scalars);
    let top = Ty::TUnion(
        None,
        false,
        vec![
            Tagged { tag: "VENDOR_A".into(), block: false, repeat: false, item: TItem::One(Ty::Struct(None, false, vec![Ty::Sc(Sc::UInt), ts.clone()])) },
            Tagged { tag: "VENDOR_B".into(), block: true, repeat: false, item: TItem::One(ts.clone()) },
        ],
    );
    Definition { named: vec![en, pair, ts], top: TItem::One(top) }
}

/// a second definition with different top-level tags (for "both, different")
fn second_definition() -> Definition {
    let top = Ty::TUnion(
        None,
        false,
        vec![
            Tagged { tag: "OTHER_X".into(), block: false, repeat: false, item: TItem::One(Ty::Struct(None, false, vec![Ty::Sc(Sc::ULong), Ty::Str(10)])) },
            Tagged { tag: "OTHER_Y".into(), block: true, repeat: false, item: TItem::Seq(Ty::Sc(Sc::Double)) },
        ],
    );
    Definition { named: vec![], top: TItem::One(top) }
}

fn place(rng: &mut Rng, host: usize, inst: Instance) -> Placed {
    let text = render_instance(rng, &inst);
    Placed { host, inst, text }
}

fn supply_texts(supply: Supply, primary: &str, secondary: Option<&str>) -> (Option<String>, Option<String>) {
    // (builtin, infile)
    match (supply, secondary) {
        (Supply::InFile, _) => (None, Some(primary.to_string())),
        (Supply::BuiltIn, _) => (Some(primary.to_string()), None),
        (Supply::Both, None) => (Some(primary.to_string()), Some(primary.to_string())),
        (Supply::Both, Some(s)) => (Some(primary.to_string()), Some(s.to_string())),
    }
}

fn phase1(rep: &mut Report, rng: &mut Rng) {
    let d = fixed_definition();
    let d2 = second_definition();
    let text = render_definition(&d, true);
    let text2 = render_definition(&d2, false);
    let mut n = 0;
    for supply in [Supply::InFile, Supply::BuiltIn, Supply::Both] {
        for strict in [false, true] {
            // every host: [conforming, deviating, conforming]; all other hosts hold one conforming block
            for target in 0..HOSTS.len() {
                let mut blocks = Vec::new();
                for h in 0..HOSTS.len() {
                    let i1 = gen_instance(rng, &d).unwrap();
                    if h == target {
                        let mut dev = None;
                        for _ in 0..50 {
                            let base = gen_instance(rng, &d).unwrap();
                            dev = deviate(rng, &base, true);
                            if dev.is_some() {
                                break;
                            }
                        }
                        let i3 = gen_instance(rng, &d).unwrap();
                        blocks.push(place(rng, h, i1));
                        blocks.push(place(rng, h, dev.unwrap()));
                        blocks.push(place(rng, h, i3));
                    } else {
                        blocks.push(place(rng, h, i1));
                    }
                }
                let (builtin, infile) = supply_texts(supply, &text, None);
                n += 1;
                run_case(rep, Case { id: format!("p1/{supply:?}/strict={strict}/host-{}/{n}", HOSTS[target].0), supply, builtin, infile, blocks, strict });
            }
            // all conforming, many instances
            for round in 0..6 {
                let blocks: Vec<Placed> = (0..HOSTS.len()).map(|h| { let i = gen_instance(rng, &d).unwrap(); place(rng, h, i) }).collect();
                let (builtin, infile) = supply_texts(supply, &text, None);
                run_case(rep, Case { id: format!("p1/{supply:?}/strict={strict}/conforming/{round}"), supply, builtin, infile, blocks, strict });
            }
        }
    }
    // both, different: the built-in definition and the in-file definition describe different vendors
    for strict in [false, true] {
        for order in 0..2 {
            for round in 0..8 {
                let (first, second, tfirst, tsecond) = if order == 0 { (&d, &d2, &text, &text2) } else { (&d2, &d, &text2, &text) };
                let mut blocks = Vec::new();
                for h in 0..HOSTS.len() {
                    let src = if (h + round) % 2 == 0 { first } else { second };
                    let i = gen_instance(rng, src).unwrap();
                    blocks.push(place(rng, h, i));
                    if (h + round) % 3 == 0 {
                        let other = if (h + round) % 2 == 0 { second } else { first };
                        let base = gen_instance(rng, other).unwrap();
                        if let Some(dev) = deviate(rng, &base, true) {
                            blocks.push(place(rng, h, dev));
                        }
                        let i2 = gen_instance(rng, other).unwrap();
                        blocks.push(place(rng, h, i2));
                    }
                }
                let (builtin, infile) = supply_texts(Supply::Both, tfirst, Some(tsecond));
                run_case(rep, Case { id: format!("p1/BothDifferent/order{order}/strict={strict}/{round}"), supply: Supply::Both, builtin, infile, blocks, strict });
            }
        }
    }
}

// ------------------------------------------------------------------------------------------------------------------
// phase 2: generated definitions

fn phase2(rep: &mut Report, rng: &mut Rng, round: usize) {
    let mut dg = DefGen { rng: Rng(rng.next()), counter: 0, named: vec![] };
    let top_kind = dg.rng.below(10);
    let d = dg.definition(top_kind);
    let tagged_top = top_kind <= 3;
    // a second definition with its own tags, only used when both are tagged unions
    let second_kind = dg.rng.below(4);
    let d2 = if tagged_top && dg.rng.chance(40) { Some(dg.definition(second_kind)) } else { None };
    let with_comments = rng.chance(30);
    let text = render_definition(&d, with_comments);
    let text2 = d2.as_ref().map(|x| render_definition(x, false));

    let open_string_seq = item_open_string_sequence(&d.top) || d.named.iter().any(has_open_string_sequence) || d2.as_ref().map_or(false, |x| item_open_string_sequence(&x.top));
    let any_string = item_has_string(&d.top) || d2.as_ref().map_or(false, |x| item_has_string(&x.top));

    for variant in 0..3 {
        let strict = if open_string_seq { true } else { rng.chance(50) };
        // in non-strict mode an identifier is tolerated in place of a string: deviations that introduce identifiers are
        // only "cannot be matched" if the definition has no strings
        let identifiers_allowed = strict || !any_string;
        let supply = [Supply::InFile, Supply::BuiltIn, Supply::Both][(round + variant) % 3];
        let mut blocks = Vec::new();
        let nblocks = 2 + rng.below(6);
        for _ in 0..nblocks {
            let h = rng.below(HOSTS.len());
            let src = match (&d2, supply) {
                (Some(x), Supply::Both) if rng.chance(50) => x,
                _ => &d,
            };
            let Some(inst) = gen_instance(rng, src) else { continue };
            if rng.chance(35) {
                if let Some(dev) = deviate(rng, &inst, identifiers_allowed) {
                    blocks.push(place(rng, h, dev));
                    continue;
                }
            }
            blocks.push(place(rng, h, inst));
        }
        if blocks.is_empty() {
            continue;
        }
        blocks.sort_by_key(|b| b.host);
        let (builtin, infile) = match (&text2, supply) {
            (Some(t2), Supply::Both) => {
                if rng.chance(50) {
                    supply_texts(supply, &text, Some(t2))
                } else {
                    supply_texts(supply, t2, Some(&text))
                }
            }
            _ => supply_texts(supply, &text, None),
        };
        run_case(rep, Case { id: format!("p2/r{round}/top{top_kind}/{supply:?}/strict={strict}/v{variant}"), supply, builtin, infile, blocks, strict });
    }
}

fn item_open_string_sequence(i: &TItem) -> bool {
    match i {
        TItem::Nothing => false,
        TItem::One(t) => has_open_string_sequence(t),
        TItem::Seq(t) => has_open_string_sequence(t),
    }
}

// ------------------------------------------------------------------------------------------------------------------
// phase 0: grammatical corner forms of the definition language that the random generator does not produce: EMPTY member lists
// (`"struct" [ident] "{" [struct_member_list] "}"`, likewise taggedstruct / taggedunion), in-file, built-in, and both modes.
// Conforming content (here: the one uint in front of the empty list) must be valid, clean, and survive write + reload.
fn phase0(rep: &mut Report) {
    for kind in ["struct", "taggedstruct", "taggedunion"] {
        for named in [false, true] {
            for builtin in [false, true] {
                for strict in [false, true] {
                    let (prefix, member) = if named {
                        (format!("{kind} Empty_t {{ }};\n"), format!("{kind} Empty_t"))
                    } else {
                        (String::new(), format!("{kind} {{ }}"))
                    };
                    let aml = format!("{prefix}block \"IF_DATA\" taggedunion {{ \"V\" struct {{ uint; {member}; }}; }};");
                    let infile = if builtin { String::new() } else { format!("/begin A2ML\n{aml}\n/end A2ML\n") };
                    let text = format!(
                        "ASAP2_VERSION 1 71\n/begin PROJECT p \"\"\n/begin MODULE m \"\"\n{infile}/begin IF_DATA V 5 /end IF_DATA\n/end MODULE\n/end PROJECT\n"
                    );
                    let spec = if builtin { Some(aml.clone()) } else { None };
                    let id = format!("phase0:empty-{kind}:named={named}:builtin={builtin}:strict={strict}");
                    let input = format!("a2ml_spec argument: {:?}\n=== strict={strict} document:\n{text}", spec);
                    let id2 = id.clone();
                    rep.run(&id, &input, move || {
                        let (a, warnings) = match a2lfile::load_from_string(&text, spec.clone(), strict) {
                            Ok(x) => x,
                            Err(e) => return fail(&format!("{id2}/load"), "a definition with an empty member list is well-formed: the document loads", format!("error: {e}")),
                        };
                        if !warnings.is_empty() {
                            return fail(&format!("{id2}/warnings"), "well-formed definition, conforming IF_DATA: no warnings", format!("{} warnings, first: {}", warnings.len(), warnings[0]));
                        }
                        let valid = a.project.module[0].if_data.first().map(|i| i.ifdata_valid);
                        if valid != Some(true) {
                            return fail(&format!("{id2}/valid"), "conforming IF_DATA is recognised as valid", format!("ifdata_valid = {valid:?}"));
                        }
                        let written = a.write_to_string();
                        match a2lfile::load_from_string(&written, spec.clone(), strict) {
                            Ok((b, w2)) if w2.is_empty() && b == a => Ok(()),
                            Ok((_, w2)) => fail(&format!("{id2}/reload"), "write + reload gives an equal model without warnings", format!("{} warnings or different model; written: {written}", w2.len())),
                            Err(e) => fail(&format!("{id2}/reload"), "written file loads", format!("error: {e}; written: {written}")),
                        }
                    });
                }
            }
        }
    }
}

#[test]
fn vf_driver_c18() {
    println!();
    let start = Instant::now();
    let mut rep = Report::new();
    let thorough = rep.budget == "thorough";
    let mut rng = Rng(rep.seed.wrapping_mul(0x2545_F491_4F6C_DD1D) ^ 0xC18);
    phase0(&mut rep);
    phase1(&mut rep, &mut rng);
    let t1 = start.elapsed();
    let n1 = rep.cases;
    // fixed number of rounds (deterministic for a seed); the time limit is a safety net for slow machines only
    let rounds = if thorough { 90000 } else { 1500 };
    let limit = if thorough { Duration::from_secs(280) } else { Duration::from_secs(40) };
    let mut done = 0;
    while done < rounds && start.elapsed() < limit {
        phase2(&mut rep, &mut rng, done);
        done += 1;
    }
    println!("phase1 {} cases {:?}, phase2 {} cases from {} generated definitions, total {:?}", n1, t1, rep.cases - n1, done, start.elapsed());
    rep.finish();
}
