// Replay witnesses for unit U-WR / U-WR-STR (C01, C05). Copy to <scratch copy of /repo>/a2lfile/tests/wr_replay.rs and run
//   cargo test --offline --test wr_replay -- --nocapture
// Every test asserts the CORRECT behaviour.
//   control_*  pass on the unchanged tree (they confirm what the Verus proofs say)
//   defect_*   FAIL on the unchanged tree (commit 17d2b41); see notes/U-WR.md (c) for the patches

fn project(module_content: &str) -> String {
    format!("ASAP2_VERSION 1 71\n/begin PROJECT p \"\"\n  /begin MODULE m \"\"\n{module_content}\n  /end MODULE\n/end PROJECT")
}

fn roundtrip_value(value: &str) -> Result<(), String> {
    let mut file = a2lfile::new();
    file.project.module[0].long_identifier = value.to_string();
    file.project.long_identifier = value.to_string();
    let text = file.write_to_string();
    let (file2, log) = a2lfile::load_from_string(&text, None, true)
        .map_err(|e| format!("value {value:?}: reload failed: {e}\n text: {text:?}"))?;
    if !log.is_empty() {
        return Err(format!("value {value:?}: {} log messages", log.len()));
    }
    if file2.project.module[0].long_identifier != value || file2.project.long_identifier != value {
        return Err(format!("value {value:?}: got {:?} text {text:?}", file2.project.module[0].long_identifier));
    }
    if file2 != file {
        return Err(format!("value {value:?}: models differ"));
    }
    let text2 = file2.write_to_string();
    if text2 != text {
        return Err(format!("value {value:?}: text drift {text:?} -> {text2:?}"));
    }
    Ok(())
}

// lemma_string_roundtrip (U-WR-STR) on the real library: all 88741 strings of length <= 4 over an alphabet that
// contains every special character, the letters n r t, non-ASCII characters of 2, 3 and 4 bytes, NUL, '/' and '*'
#[test]
fn control_all_short_strings_roundtrip() {
    let alphabet = ['a', '\'', '"', '\\', '\r', '\n', '\t', 'n', 'r', 't', 'é', ' ', '/', '*', '\u{2028}', '\0', '😀'];
    let mut failures = Vec::new();
    let mut count = 0;
    for len in 0..=4 {
        let mut idx = vec![0usize; len];
        loop {
            let s: String = idx.iter().map(|&i| alphabet[i]).collect();
            count += 1;
            if let Err(e) = roundtrip_value(&s) {
                failures.push(e);
            }
            let mut k = 0;
            while k < len {
                idx[k] += 1;
                if idx[k] < alphabet.len() {
                    break;
                }
                idx[k] = 0;
                k += 1;
            }
            if k == len {
                break;
            }
        }
    }
    eprintln!("{count} strings, {} failures", failures.len());
    for f in failures.iter().take(20) {
        eprintln!("{f}");
    }
    assert!(failures.is_empty());
}

fn cycle(text: &str) -> (String, String) {
    let (f1, _) = a2lfile::load_from_string(text, None, false).unwrap();
    let t1 = f1.write_to_string();
    let (f2, _) = a2lfile::load_from_string(&t1, None, false).unwrap();
    let t2 = f2.write_to_string();
    assert!(f1 == f2, "models differ:\n{t1:?}\n{t2:?}");
    (t1, t2)
}

// layouts around comments and strings: second write == first write
#[test]
fn control_layouts_are_fixpoints() {
    for text in [
        "ASAP2_VERSION 1 71\n/begin PROJECT p \"\"\t/* c */\n  /begin MODULE m \"\"\n  /end MODULE\n/end PROJECT",
        "ASAP2_VERSION 1 71\n/begin PROJECT p \"\" // c\n  /begin MODULE m \"\"\n  /end MODULE\n/end PROJECT",
        "ASAP2_VERSION 1 71\r\n/begin PROJECT p \"\"\r\n  // c\r\n  /begin MODULE m \"\"\r\n  /end MODULE\r\n/end PROJECT",
        "ASAP2_VERSION 1 71\n/begin PROJECT p \"\"\n  /* c */ /begin MODULE m \"\"\n  /end MODULE\n/end PROJECT",
        "ASAP2_VERSION 1 71\n/begin PROJECT p \"a\nb\"\n  /begin MODULE m \"\"\n  /end MODULE\n/end PROJECT",
        "ASAP2_VERSION 1 71\n/begin PROJECT p \"a\"\"b\"\n  /begin MODULE m \"x\\\\\"\n  /end MODULE\n/end PROJECT",
        "ASAP2_VERSION 1 71\n/begin PROJECT p \"\"\n  /begin MODULE m \"\"\n  /end MODULE\n  // last\n/end PROJECT",
        "ASAP2_VERSION 1 71\n/begin PROJECT p \"\"\n  /begin MODULE m \"\"/* x */\n  /end MODULE\n/end PROJECT",
    ] {
        let (t1, t2) = cycle(text);
        assert_eq!(t1, t2, "input {text:?}");
    }
}

#[test]
fn control_finite_floats_roundtrip() {
    for v in [0.0f64, -0.0, 1.0, -1.5, 1e-5, 123456789012.0, 1e10, -1e10, 0.0001, -0.0001, 9.999e-5, f64::MIN_POSITIVE, f64::MAX, f64::MIN, 5e-324, 0.1 + 0.2] {
        let text = project(&format!("    /begin COMPU_METHOD cm \"\" LINEAR \"%6.2\" \"\"\n      COEFFS_LINEAR {v:e} 0\n    /end COMPU_METHOD"));
        let (f1, _) = a2lfile::load_from_string(&text, None, true).unwrap();
        let t1 = f1.write_to_string();
        let (f2, _) = a2lfile::load_from_string(&t1, None, true).unwrap();
        let a = f2.project.module[0].compu_method[0].coeffs_linear.as_ref().unwrap().a;
        assert!(a == v, "{v:e} -> {a:e}\n{t1}");
        assert!(f1 == f2);
        assert_eq!(t1, f2.write_to_string());
    }
}

// D-WR-1 (C01.3): a float literal that overflows to infinity is accepted, written as `inf`, and `inf` is not a number token
#[test]
fn defect_float_overflow_f64() {
    let text = project("    /begin COMPU_METHOD cm \"\" LINEAR \"%6.2\" \"\"\n      COEFFS_LINEAR 1e999 0\n    /end COMPU_METHOD");
    match a2lfile::load_from_string(&text, None, true) {
        Err(_) => {} // repaired: the literal is rejected at load time
        Ok((f1, _)) => {
            let t1 = f1.write_to_string();
            let r = a2lfile::load_from_string(&t1, None, true);
            assert!(r.is_ok(), "C01 violated: input accepted, but the written text is rejected: {}\n{t1}", r.err().unwrap());
        }
    }
}

// D-WR-1, f32 variant (IF_DATA `float`): the threshold is 3.4e38; the written `inf` makes the IF_DATA fall back to the
// uninterpreted form on reload: the reloaded model differs silently
#[test]
fn defect_float_overflow_f32_ifdata() {
    let text = project("    /begin A2ML\n      block \"IF_DATA\" taggedunion if_data {\n        \"X\" struct { float; };\n      };\n    /end A2ML\n    /begin IF_DATA X 1e39\n    /end IF_DATA");
    match a2lfile::load_from_string(&text, None, true) {
        Err(_) => {}
        Ok((f1, _)) => {
            let t1 = f1.write_to_string();
            let (f2, _) = a2lfile::load_from_string(&t1, None, true).unwrap();
            assert!(f1 == f2, "C01 violated: reloaded model differs\n{t1}");
        }
    }
}

// D-WR-2 (C05/C01): a block comment that spans several lines pushes the following element down by the number of
// line breaks inside the comment on every load/write cycle
#[test]
fn defect_multiline_block_comment_grows() {
    let text = "ASAP2_VERSION 1 71\n/begin PROJECT p \"\"\n  /* a\n     b */\n  /begin MODULE m \"\"\n  /end MODULE\n/end PROJECT";
    let (t1, t2) = cycle(text);
    assert_eq!(t1.lines().count(), text.lines().count(), "first write moved tokens to other lines:\n{t1}");
    assert_eq!(t1, t2, "write is not a textual fixpoint");
}
