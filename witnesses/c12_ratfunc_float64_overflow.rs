// Witness of KF-C12-1 (replayed on the unmodified crate; copy to a2lfile/tests/ and run `cargo test --offline --test c12_ratfunc_float64_overflow`).
// calc_compu_method_limits evaluates the linear special case of RAT_FUNC as `f * (y / b) - c / b`. For FLOAT64_IEEE the raw bound y is
// f64::MAX, so with |b| < 1 the intermediate `y / b` overflows to infinity although the physical bound (f / b) * y is finite when |f / b| <= 1:
// the computed range is (-inf, +inf) and declared limits far outside the real range are accepted.
use a2lfile::{A2lError, load_from_string};

fn limit_errors(b: &str, f: &str, lower: &str, upper: &str) -> usize {
    let text = format!(
        r#"ASAP2_VERSION 1 71 /begin PROJECT p "" /begin MODULE m ""
            /begin MEASUREMENT meas "" FLOAT64_IEEE cm 1 1.0 {lower} {upper}
            /end MEASUREMENT
            /begin COMPU_METHOD cm "" RAT_FUNC "%4.2" "unit"
                COEFFS 0 {b} 0 0 0 {f}
            /end COMPU_METHOD
        /end MODULE /end PROJECT"#
    );
    let (a2l, _) = load_from_string(&text, None, true).unwrap();
    a2l.check().iter().filter(|e| matches!(e, A2lError::LimitCheckError { .. })).count()
}

// INT = (b * PHYS) / f, PHYS = (f / b) * INT. b = 0.0625, f = 0.001: the physical range is +-0.016 * f64::MAX = +-2.88e306.
// Declared limits +-1e307 are clearly outside: the property demands a limit error.
#[test]
fn c12_1_ratfunc_float64_intermediate_overflow() {
    assert_eq!(limit_errors("0.0625", "0.001", "-1e307", "1e307"), 1);
}

// control: the same ratio without intermediate overflow (b = 62.5, f = 1) is handled
#[test]
fn c12_1_control() {
    assert_eq!(limit_errors("62.5", "1", "-1e307", "1e307"), 1);
    assert_eq!(limit_errors("62.5", "1", "-1e306", "1e306"), 0);
}
