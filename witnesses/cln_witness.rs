// Witness inputs for the C10 defects found by unit U-CLN (replay with `cargo test --offline --test cln_witness`)
use a2lfile::*;

fn load(body: &str) -> A2lFile {
    let text = format!(
        "ASAP2_VERSION 1 71\n/begin PROJECT p \"\" /begin MODULE m \"\"\n{body}\n/end MODULE /end PROJECT\n"
    );
    let (file, log) = load_from_string(&text, None, true).expect("witness must parse in strict mode");
    assert!(log.is_empty(), "{log:?}");
    file
}

// D1: a COMPU_VTAB referenced only through STATUS_STRING_REF is deleted
#[test]
fn d1_status_string_ref_target_is_deleted() {
    let mut f = load(
        r#"/begin MEASUREMENT meas "" UBYTE cm 1 1.0 0 100 /end MEASUREMENT
           /begin COMPU_METHOD cm "" LINEAR "%6.2" "" COEFFS_LINEAR 1 0 STATUS_STRING_REF vt /end COMPU_METHOD
           /begin COMPU_VTAB vt "" TAB_VERB 1 0 "err" /end COMPU_VTAB"#,
    );
    assert!(f.check().is_empty(), "consistent before cleanup");
    f.cleanup();
    let m = &f.project.module[0];
    assert!(m.compu_method.contains_key("cm"));
    assert!(m.compu_vtab.contains_key("vt"), "COMPU_VTAB vt is still referenced by STATUS_STRING_REF of cm");
    assert!(f.check().is_empty(), "consistent after cleanup");
}

// D1 (other face): an unused COMPU_METHOD survives because its name equals a STATUS_STRING_REF target
#[test]
fn d1_unused_compu_method_named_like_table_survives() {
    let mut f = load(
        r#"/begin MEASUREMENT meas "" UBYTE cm 1 1.0 0 100 /end MEASUREMENT
           /begin COMPU_METHOD cm "" LINEAR "%6.2" "" COEFFS_LINEAR 1 0 STATUS_STRING_REF x /end COMPU_METHOD
           /begin COMPU_METHOD x "" IDENTICAL "%6.2" "" /end COMPU_METHOD
           /begin COMPU_VTAB x "" TAB_VERB 1 0 "err" /end COMPU_VTAB"#,
    );
    f.cleanup();
    let m = &f.project.module[0];
    assert!(!m.compu_method.contains_key("x"), "COMPU_METHOD x is referenced from no conversion site");
}

// D2: a COMPU_METHOD referenced only from AXIS_DESCR inside TYPEDEF_CHARACTERISTIC is deleted
#[test]
fn d2_axis_descr_in_typedef_characteristic_not_counted() {
    let mut f = load(
        r#"/begin TYPEDEF_CHARACTERISTIC tc "" CURVE rl 0 NO_COMPU_METHOD 0 100
               /begin AXIS_DESCR STD_AXIS NO_INPUT_QUANTITY cm_ax 8 0 100 /end AXIS_DESCR
           /end TYPEDEF_CHARACTERISTIC
           /begin RECORD_LAYOUT rl /end RECORD_LAYOUT
           /begin COMPU_METHOD cm_ax "" IDENTICAL "%6.2" "" /end COMPU_METHOD"#,
    );
    f.cleanup();
    let m = &f.project.module[0];
    assert!(m.compu_method.contains_key("cm_ax"), "cm_ax is referenced by tc / AXIS_DESCR");
}

// D2 (repair half): a dangling conversion in AXIS_DESCR inside TYPEDEF_CHARACTERISTIC is not replaced
#[test]
fn d2_axis_descr_in_typedef_characteristic_not_repaired() {
    let mut f = load(
        r#"/begin TYPEDEF_CHARACTERISTIC tc "" CURVE rl 0 NO_COMPU_METHOD 0 100
               /begin AXIS_DESCR STD_AXIS NO_INPUT_QUANTITY missing 8 0 100 /end AXIS_DESCR
           /end TYPEDEF_CHARACTERISTIC
           /begin CHARACTERISTIC ch "" CURVE 0 rl 0 NO_COMPU_METHOD 0 100
               /begin AXIS_DESCR STD_AXIS NO_INPUT_QUANTITY missing 8 0 100 /end AXIS_DESCR
           /end CHARACTERISTIC
           /begin RECORD_LAYOUT rl /end RECORD_LAYOUT"#,
    );
    f.cleanup();
    let m = &f.project.module[0];
    assert_eq!(m.characteristic[0].axis_descr[0].conversion, "NO_COMPU_METHOD");
    assert_eq!(m.typedef_characteristic[0].axis_descr[0].conversion, "NO_COMPU_METHOD");
}

// D3: a COMPU_METHOD referenced only from INSTANCE / OVERWRITE / CONVERSION is deleted
#[test]
fn d3_overwrite_conversion_not_counted() {
    let mut f = load(
        r#"/begin TYPEDEF_CHARACTERISTIC tc "" VALUE rl 0 NO_COMPU_METHOD 0 100 /end TYPEDEF_CHARACTERISTIC
           /begin RECORD_LAYOUT rl /end RECORD_LAYOUT
           /begin INSTANCE inst "" tc 0x1000
               /begin OVERWRITE inst 0 CONVERSION cm_ow /end OVERWRITE
           /end INSTANCE
           /begin COMPU_METHOD cm_ow "" IDENTICAL "%6.2" "" /end COMPU_METHOD"#,
    );
    f.cleanup();
    let m = &f.project.module[0];
    assert!(m.compu_method.contains_key("cm_ow"), "cm_ow is referenced by inst / OVERWRITE / CONVERSION");
}

// D4: a UNIT that is referenced only by a deleted UNIT survives the first cleanup and is deleted by the second
#[test]
fn d4_unit_chain_not_idempotent() {
    let mut f = load(
        r#"/begin UNIT a "" "" DERIVED REF_UNIT b /end UNIT
           /begin UNIT b "" "" DERIVED REF_UNIT c /end UNIT
           /begin UNIT c "" "" EXTENDED_SI /end UNIT"#,
    );
    f.cleanup();
    let once: Vec<String> = f.project.module[0].unit.iter().map(|u| u.get_name().to_string()).collect();
    f.cleanup();
    let twice: Vec<String> = f.project.module[0].unit.iter().map(|u| u.get_name().to_string()).collect();
    assert_eq!(once, twice, "cleanup must be idempotent");
}

// D4 (other face): after one cleanup a UNIT remains that nothing remaining refers to
#[test]
fn d4_unit_kept_alive_by_deleted_unit() {
    let mut f = load(
        r#"/begin UNIT a "" "" DERIVED REF_UNIT b /end UNIT
           /begin UNIT b "" "" EXTENDED_SI /end UNIT"#,
    );
    f.cleanup();
    let m = &f.project.module[0];
    assert!(!m.unit.contains_key("a"));
    assert!(!m.unit.contains_key("b"), "UNIT b is referenced only by the deleted UNIT a");
}

// D5: a GROUP whose REF_CHARACTERISTIC names an AXIS_PTS loses the (valid) reference and is then deleted as "empty"
#[test]
fn d5_group_referencing_axis_pts_is_deleted() {
    let mut f = load(
        r#"/begin AXIS_PTS ax "" 0 NO_INPUT_QUANTITY rl 0 NO_COMPU_METHOD 2 0 100 /end AXIS_PTS
           /begin RECORD_LAYOUT rl /end RECORD_LAYOUT
           /begin GROUP g "" /begin REF_CHARACTERISTIC ax /end REF_CHARACTERISTIC /end GROUP"#,
    );
    f.cleanup();
    let m = &f.project.module[0];
    assert!(m.group.contains_key("g"), "GROUP g refers to the existing AXIS_PTS ax");
    assert_eq!(m.group[0].ref_characteristic.as_ref().unwrap().identifier_list, vec!["ax".to_string()]);
}
