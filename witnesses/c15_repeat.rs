// Replay for C15: repeated sort_new_items() calls (uid doubling)
use a2lfile::*;

const SRC: &str = r#"ASAP2_VERSION 1 71
/begin PROJECT P ""
  /begin MODULE M ""
    /begin MEASUREMENT m_b "" UBYTE NO_COMPU_METHOD 0 0 0 255
    /end MEASUREMENT
    /begin CHARACTERISTIC c_a "" VALUE 0x0 RL 0 NO_COMPU_METHOD 0 255
    /end CHARACTERISTIC
    /begin MEASUREMENT m_a "" UBYTE NO_COMPU_METHOD 0 0 0 255
    /end MEASUREMENT
    /begin CHARACTERISTIC c_b "" VALUE 0x0 RL 0 NO_COMPU_METHOD 0 255
    /end CHARACTERISTIC
    /begin RECORD_LAYOUT RL
    /end RECORD_LAYOUT
  /end MODULE
/end PROJECT
"#;

fn begin_lines(text: &str) -> Vec<String> {
    text.lines()
        .filter(|l| l.trim_start().starts_with("/begin"))
        .map(|l| l.trim().split_whitespace().take(3).collect::<Vec<_>>().join(" "))
        .collect()
}

fn run(k_max: usize, insert: bool) {
    let (mut file, _) = load_from_string(SRC, None, false).unwrap();
    let order0 = begin_lines(&file.write_to_string());
    println!("initial order: {order0:?}");
    let uids: Vec<u32> = file.project.module[0]
        .measurement
        .iter()
        .map(|m| m.get_layout().uid)
        .collect();
    println!("initial measurement uids: {uids:?}");
    for k in 1..=k_max {
        if insert && k == 1 {
            let m = Measurement::new(
                "m_new".to_string(),
                "".to_string(),
                DataType::Ubyte,
                "NO_COMPU_METHOD".to_string(),
                0,
                0.0,
                0.0,
                255.0,
            );
            file.project.module[0].measurement.push(m);
        }
        file.sort_new_items();
        let order = begin_lines(&file.write_to_string());
        let uids: Vec<(String, u32)> = file.project.module[0]
            .measurement
            .iter()
            .map(|m| (m.get_name().to_string(), m.get_layout().uid))
            .chain(
                file.project.module[0]
                    .characteristic
                    .iter()
                    .map(|m| (m.get_name().to_string(), m.get_layout().uid)),
            )
            .collect();
        let expected: Vec<String> = if insert {
            // m_new directly after the last placed MEASUREMENT (m_a)
            let mut e = Vec::new();
            for l in &order0 {
                e.push(l.clone());
                if l.starts_with("/begin MEASUREMENT m_a") {
                    e.push("/begin MEASUREMENT m_new".to_string());
                }
            }
            e
        } else {
            order0.clone()
        };
        if order != expected {
            println!("call {k}: ORDER CHANGED: {order:?}\n   uids {uids:?}");
            panic!("order corrupted after {k} calls");
        } else {
            println!("call {k}: order ok, uids {uids:?}");
        }
    }
}

#[test]
fn repeated_sort_new_items_no_insert() {
    run(300, false);
}

#[test]
fn repeated_sort_new_items_with_insert() {
    run(300, true);
}

#[test]
fn insert_in_every_cycle() {
    let (mut file, _) = load_from_string(SRC, None, false).unwrap();
    let mut prev = begin_lines(&file.write_to_string());
    for k in 1..=200 {
        let name = format!("m_new{k:03}");
        let m = Measurement::new(
            name.clone(),
            "".to_string(),
            DataType::Ubyte,
            "NO_COMPU_METHOD".to_string(),
            0,
            0.0,
            0.0,
            255.0,
        );
        file.project.module[0].measurement.push(m);
        file.sort_new_items();
        let order = begin_lines(&file.write_to_string());
        // expected: previous order, new element directly after the last MEASUREMENT
        let last_meas = prev
            .iter()
            .rposition(|l| l.starts_with("/begin MEASUREMENT"))
            .unwrap();
        let mut expected = prev.clone();
        expected.insert(last_meas + 1, format!("/begin MEASUREMENT {name}"));
        assert_eq!(order, expected, "cycle {k}");
        prev = order;
    }
}

fn new_meas(name: &str) -> Measurement {
    Measurement::new(
        name.to_string(),
        "".to_string(),
        DataType::Ubyte,
        "NO_COMPU_METHOD".to_string(),
        0,
        0.0,
        0.0,
        255.0,
    )
}

// two elements inserted in the same cycle share one uid; a later rename flips their (already fixed) output order
#[test]
fn tie_rename_flips_placed_elements() {
    let (mut file, _) = load_from_string(SRC, None, false).unwrap();
    file.project.module[0].measurement.push(new_meas("n_x"));
    file.project.module[0].measurement.push(new_meas("n_y"));
    file.sort_new_items();
    let before = begin_lines(&file.write_to_string());
    let idx = file.project.module[0].measurement.index("n_x").unwrap();
    file.project.module[0].measurement.rename_item(idx, "n_z");
    let renamed = begin_lines(&file.write_to_string());
    file.sort_new_items();
    let after = begin_lines(&file.write_to_string());
    println!("before : {before:?}\nrenamed: {renamed:?}\nafter  : {after:?}");
    assert_eq!(renamed, after, "sort_new_items changed the order of placed elements");
}
