use a2lfile::*;

fn limit_errors(text: &str) -> Vec<String> {
    let (a2l, _) = load_from_string(text, None, false).unwrap();
    a2l.check()
        .iter()
        .filter(|e| matches!(e, A2lError::LimitCheckError { .. }))
        .map(|e| e.to_string())
        .collect()
}

// C12 witness: UBYTE with COEFFS_LINEAR -1 0 has the physical range -255 .. 0
#[test]
fn c12_linear_negative_slope_correct_limits_rejected() {
    let text = r#"ASAP2_VERSION 1 71 /begin PROJECT p "" /begin MODULE m ""
        /begin COMPU_METHOD cm "" LINEAR "%4.2" "unit" COEFFS_LINEAR -1 0 /end COMPU_METHOD
        /begin MEASUREMENT meas "" UBYTE cm 1 1.0 -255 0 /end MEASUREMENT
    /end MODULE /end PROJECT"#;
    let errs = limit_errors(text);
    for e in &errs { println!("{e}"); }
    assert!(errs.is_empty(), "correct limits -255..0 reported as error: {errs:?}");
}

// C12 witness 2: limits far outside the physical range are accepted (upper side): -255 .. 255
#[test]
fn c12_linear_negative_slope_wrong_limits_accepted() {
    let text = r#"ASAP2_VERSION 1 71 /begin PROJECT p "" /begin MODULE m ""
        /begin COMPU_METHOD cm "" LINEAR "%4.2" "unit" COEFFS_LINEAR -1 0 /end COMPU_METHOD
        /begin MEASUREMENT meas "" UBYTE cm 1 1.0 0 200 /end MEASUREMENT
    /end MODULE /end PROJECT"#;
    let errs = limit_errors(text);
    for e in &errs { println!("{e}"); }
    assert!(!errs.is_empty(), "limits 0..200 (physical range is -255..0) accepted");
}

// C11 witness: six STD_AXIS AXIS_DESCR
#[test]
fn c11_six_axis_descr_no_panic() {
    let ad = "/begin AXIS_DESCR STD_AXIS NO_INPUT_QUANTITY NO_COMPU_METHOD 1 0 100 /end AXIS_DESCR\n";
    let text = format!(r#"ASAP2_VERSION 1 71 /begin PROJECT p "" /begin MODULE m ""
        /begin CHARACTERISTIC c "" CUBE_5 0x1234 rl 0 NO_COMPU_METHOD 0.0 1.0
        {}
        /end CHARACTERISTIC
        /begin RECORD_LAYOUT rl
            FNC_VALUES 0 FLOAT32_IEEE ROW_DIR DIRECT
        /end RECORD_LAYOUT
    /end MODULE /end PROJECT"#, ad.repeat(6));
    let (a2l, _) = load_from_string(&text, None, false).unwrap();
    let r = std::panic::catch_unwind(|| a2l.check().len());
    assert!(r.is_ok(), "check() panicked on a CHARACTERISTIC with six AXIS_DESCR");
}

// after the fix: the physical range of UBYTE through -2*x + 10 is -500 .. 10
#[test]
fn c12_linear_negative_slope_range() {
    let mk = |lo: &str, hi: &str| format!(r#"ASAP2_VERSION 1 71 /begin PROJECT p "" /begin MODULE m ""
        /begin COMPU_METHOD cm "" LINEAR "%4.2" "unit" COEFFS_LINEAR -2 10 /end COMPU_METHOD
        /begin MEASUREMENT meas "" UBYTE cm 1 1.0 {lo} {hi} /end MEASUREMENT
    /end MODULE /end PROJECT"#);
    assert!(limit_errors(&mk("-500", "10")).is_empty());
    assert!(limit_errors(&mk("-400", "0")).is_empty());
    assert!(!limit_errors(&mk("-501", "10")).is_empty());
    assert!(!limit_errors(&mk("-500", "11")).is_empty());
}
