use a2lfile::*;
use std::time::Instant;
fn chain(n: usize) -> String {
    let mut s = String::from("ASAP2_VERSION 1 71 /begin PROJECT p \"\" /begin MODULE m \"\"\n");
    for i in 0..n {
        s += &format!("/begin GROUP g{i} \"\"");
        if i > 0 { s += &format!(" /begin SUB_GROUP g{} g{} /end SUB_GROUP", i - 1, i - 1); }
        s += " /end GROUP\n";
    }
    s += "/end MODULE /end PROJECT";
    s
}
#[test]
fn cleanup_time_grows_exponentially() {
    for n in [16usize, 20, 24] {
        let (mut f, _) = load_from_string(&chain(n), None, false).unwrap();
        let t = Instant::now();
        f.cleanup();
        println!("n={n} cleanup took {:?}, groups left {}", t.elapsed(), f.project.module[0].group.len());
    }
    let (mut f, _) = load_from_string(&chain(26), None, false).unwrap();
    let t = Instant::now();
    f.cleanup();
    assert!(t.elapsed().as_millis() < 2000, "cleanup of 26 groups took {:?}", t.elapsed());
}
