use std::sync::mpsc;
use std::time::Duration;

fn load(text: &'static str) -> Option<Result<(a2lfile::A2lFile, Vec<a2lfile::A2lError>), String>> {
    let (tx, rx) = mpsc::channel();
    std::thread::spawn(move || {
        let r = a2lfile::load_from_string(text, None, false).map_err(|e| e.to_string());
        let _ = tx.send(r);
    });
    rx.recv_timeout(Duration::from_secs(5)).ok()
}

const HANG: &str = r#"ASAP2_VERSION 1 71
/begin PROJECT p ""
  /begin MODULE m ""
    /begin A2ML
      block "IF_DATA" (taggedstruct { "X" int; })*;
    /end A2ML
    /begin IF_DATA Y 1 /end IF_DATA
  /end MODULE
/end PROJECT
"#;

#[test]
fn sequence_without_progress_terminates() {
    let r = load(HANG);
    assert!(r.is_some(), "load_from_string did not return within 5 s (Sequence loop without progress)");
    let (file, _log) = r.unwrap().unwrap();
    let ifd = &file.project.module[0].if_data[0];
    assert!(!ifd.ifdata_valid);
}

const HANG2: &str = r#"ASAP2_VERSION 1 71
/begin PROJECT p ""
  /begin MODULE m ""
    /begin A2ML
      block "IF_DATA" (struct { })*;
    /end A2ML
    /begin IF_DATA Y 1 /end IF_DATA
  /end MODULE
/end PROJECT
"#;

#[test]
fn sequence_of_empty_struct_terminates() {
    let r = load(HANG2);
    assert!(r.is_some(), "load_from_string did not return within 5 s");
}

// conforming data for the same definition must still be recognised after the fix
const SEQ_OK: &str = r#"ASAP2_VERSION 1 71
/begin PROJECT p ""
  /begin MODULE m ""
    /begin A2ML
      block "IF_DATA" (taggedstruct { "X" int; })*;
    /end A2ML
    /begin IF_DATA X 1 X 2 /end IF_DATA
  /end MODULE
/end PROJECT
"#;

#[test]
fn sequence_conforming_still_valid() {
    let r = load(SEQ_OK);
    assert!(r.is_some(), "timeout");
    let (file, _log) = r.unwrap().unwrap();
    let ifd = &file.project.module[0].if_data[0];
    assert!(ifd.ifdata_valid);
}

const NUMS: &str = r#"ASAP2_VERSION 1 71
/begin PROJECT p ""
  /begin MODULE m ""
    /begin IF_DATA X 4294967297 0x1FFFFFFFF 2147483648 -2147483649 0xFFFFFFFF 16777217 18446744073709551615 0xFFFFFFFFFFFFFFFF 3.141592653589793 1e300 /end IF_DATA
  /end MODULE
/end PROJECT
"#;

#[test]
fn unknown_ifdata_numbers_survive() {
    let (file, log) = load(NUMS).expect("timeout").unwrap();
    let out = file.write_to_string();
    println!("log: {}", log.len());
    println!("{out}");
    for lit in ["4294967297", "0x1FFFFFFFF", "2147483648", "-2147483649", "0xFFFFFFFF", "16777217", "18446744073709551615", "0xFFFFFFFFFFFFFFFF", "3.141592653589793"] {
        assert!(out.contains(lit), "literal {lit} was altered; output:\n{out}");
    }
}

const SPURIOUS: &str = r#"ASAP2_VERSION 1 71
/begin PROJECT p ""
  /begin MODULE m ""
    /begin A2ML
      block "IF_DATA" struct { char[2]; int; };
    /end A2ML
    /begin IF_DATA "abcdef" xyz /end IF_DATA
  /end MODULE
/end PROJECT
"#;

#[test]
fn failed_speculative_parse_leaves_no_diagnostics() {
    let (file, log) = load(SPURIOUS).expect("timeout").unwrap();
    let ifd = &file.project.module[0].if_data[0];
    assert!(!ifd.ifdata_valid);
    for m in &log { println!("LOG: {m}"); }
    assert!(log.is_empty(), "{} diagnostics from a specification that was rejected", log.len());
}
