// Replay of finding KF-C16-1: a file that includes itself.
// The loading is done in a child process (this test binary re-executed with an env var), because the expected
// outcome is a stack overflow, which aborts the process (SIGSEGV/SIGABRT) and cannot be caught in-process.
use std::process::Command;
use std::time::Duration;

fn child_main(kind: &str) {
    let dir = std::env::temp_dir().join(format!("a2l_selfinc_{}_{}", kind, std::process::id()));
    std::fs::create_dir_all(&dir).unwrap();
    let path = dir.join("a.a2l");
    match kind {
        "a2l" => {
            std::fs::write(&path, "/include \"a.a2l\"\n").unwrap();
        }
        "a2ml" => {
            // the A2ML block of the main file includes an .aml file that includes itself
            std::fs::write(dir.join("x.aml"), "/include x.aml\n").unwrap();
            std::fs::write(
                &path,
                "ASAP2_VERSION 1 71 /begin PROJECT p \"\" /begin MODULE m \"\" /begin A2ML /include x.aml /end A2ML /end MODULE /end PROJECT\n",
            )
            .unwrap();
        }
        _ => unreachable!(),
    }
    let cwd = std::env::current_dir().unwrap();
    std::env::set_current_dir(&dir).unwrap();
    let res = a2lfile::load(std::path::Path::new("a.a2l"), None, false);
    std::env::set_current_dir(cwd).unwrap();
    println!("load returned: is_ok={}", res.is_ok());
    if let Err(e) = res {
        println!("error: {e}");
    }
}

fn run_child(kind: &str) -> (Option<i32>, Option<i32>, String, bool) {
    let exe = std::env::current_exe().unwrap();
    let mut child = Command::new(exe)
        .env("SELFINC_CHILD", kind)
        .args(["--exact", "child_entry", "--nocapture", "--test-threads=1"])
        .stdout(std::process::Stdio::piped())
        .stderr(std::process::Stdio::piped())
        .spawn()
        .unwrap();
    // timeout 60 s
    let start = std::time::Instant::now();
    loop {
        if let Some(_st) = child.try_wait().unwrap() {
            break;
        }
        if start.elapsed() > Duration::from_secs(60) {
            child.kill().unwrap();
            let out = child.wait_with_output().unwrap();
            return (None, None, String::from_utf8_lossy(&out.stderr).into_owned(), true);
        }
        std::thread::sleep(Duration::from_millis(50));
    }
    let out = child.wait_with_output().unwrap();
    #[cfg(unix)]
    let sig = {
        use std::os::unix::process::ExitStatusExt;
        out.status.signal()
    };
    #[cfg(not(unix))]
    let sig = None;
    let mut text = String::from_utf8_lossy(&out.stdout).into_owned();
    text.push_str(&String::from_utf8_lossy(&out.stderr));
    (out.status.code(), sig, text, false)
}

#[test]
fn child_entry() {
    if let Ok(kind) = std::env::var("SELFINC_CHILD") {
        child_main(&kind);
    }
}

#[test]
fn self_including_a2l_file() {
    if std::env::var("SELFINC_CHILD").is_ok() {
        return;
    }
    let (code, sig, text, timed_out) = run_child("a2l");
    println!("A2L self include: exit code {code:?}, signal {sig:?}, timed out {timed_out}\n--- child output ---\n{text}");
    let tail: String = text.chars().rev().take(600).collect::<String>().chars().rev().collect();
    println!("--- tail ---\n{tail}");
    assert!(
        !timed_out && code == Some(0) && text.contains("load returned"),
        "loading a self-including file did not return: exit code {code:?}, signal {sig:?}, timed out {timed_out}"
    );
}

#[test]
fn self_including_a2ml_file() {
    if std::env::var("SELFINC_CHILD").is_ok() {
        return;
    }
    let (code, sig, text, timed_out) = run_child("a2ml");
    println!("A2ML self include: exit code {code:?}, signal {sig:?}, timed out {timed_out}");
    let tail: String = text.chars().rev().take(600).collect::<String>().chars().rev().collect();
    println!("--- tail ---\n{tail}");
    assert!(
        !timed_out && code == Some(0) && text.contains("load returned"),
        "loading an A2ML text that includes itself did not return: exit code {code:?}, signal {sig:?}, timed out {timed_out}"
    );
}
