use a2lfile::*;
const HEAD: &str = "ASAP2_VERSION 1 71 /begin PROJECT p \"\" /begin MODULE m \"\" ";
const TAIL: &str = " /end MODULE /end PROJECT";
fn names(s: &str) -> Result<(Vec<String>, usize), String> {
    match load_from_string(s, None, false) {
        Ok((f, log)) => Ok((f.project.module[0].measurement.iter().map(|m| m.get_name().to_string()).collect(), log.len())),
        Err(e) => Err(e.to_string()),
    }
}
#[test]
fn unknown_keyword_before_commented_begin() {
    let meas = "/begin /* c */ MEASUREMENT m1 \"\" UBYTE NO_COMPU_METHOD 0 0 0 255 /end MEASUREMENT";
    let base = names(&format!("{HEAD}{meas}{TAIL}")).unwrap();
    let with = names(&format!("{HEAD}UNKNOWN_KW 1 2 {meas}{TAIL}"));
    println!("base={base:?} with={with:?}");
    let with = with.unwrap();
    assert_eq!(base.0, with.0);
    assert_eq!(with.1, base.1 + 1);
}
#[test]
fn unknown_keyword_before_plain_begin() {
    let meas = "/begin MEASUREMENT m1 \"\" UBYTE NO_COMPU_METHOD 0 0 0 255 /end MEASUREMENT";
    let base = names(&format!("{HEAD}{meas}{TAIL}")).unwrap();
    let with = names(&format!("{HEAD}UNKNOWN_KW 1 2 {meas}{TAIL}")).unwrap();
    assert_eq!(base.0, with.0);
    assert_eq!(with.1, base.1 + 1);
}
#[test]
fn unknown_block_comment_before_end_tag() {
    let meas = "/begin MEASUREMENT m1 \"\" UBYTE NO_COMPU_METHOD 0 0 0 255 /end MEASUREMENT";
    let base = names(&format!("{HEAD}{meas}{TAIL}")).unwrap();
    let with = names(&format!("{HEAD}/begin UNKNOWN_BLK 1 /* in */ 2 /end /* c */ UNKNOWN_BLK {meas}{TAIL}"));
    println!("with={with:?}");
    let with = with.unwrap();
    assert_eq!(base.0, with.0);
    assert_eq!(with.1, base.1 + 1);
}
#[test]
fn known_block_comment_before_end_tag() {
    let meas = "/begin MEASUREMENT m1 \"\" UBYTE NO_COMPU_METHOD 0 0 0 255 /end /* c */ MEASUREMENT";
    let base = names(&format!("{HEAD}{meas}{TAIL}")).unwrap();
    assert_eq!(base.0, vec!["m1".to_string()]);
}
