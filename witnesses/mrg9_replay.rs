// Replay witnesses for reference sites that merge_modules forgets to rename (U-MRG9).
// Every test asserts the CORRECT behaviour; tests named site* are expected to fail
// on the unpatched tree, tests named control* are expected to pass.

use a2lfile::{A2lFile, A2lObjectName};

fn load(module_content: &str) -> A2lFile {
    let text = format!(
        "ASAP2_VERSION 1 71 /begin PROJECT p \"\" /begin MODULE m \"\"\n{module_content}\n/end MODULE /end PROJECT"
    );
    let (file, log) = a2lfile::load_from_string(&text, None, false).unwrap();
    for msg in &log {
        eprintln!("  load log: {msg}");
    }
    file
}

// ---------------------------------------------------------------------------------
// 1. UNIT -> UNIT.REF_UNIT.unit
#[test]
fn site01_unit_ref_unit() {
    let mut a = load(r#"/begin UNIT u_base "A base" "a" EXTENDED_SI /end UNIT"#);
    let mut b = load(
        r#"/begin UNIT u_base "B base" "b" EXTENDED_SI /end UNIT
           /begin UNIT u_derived "derived" "d" DERIVED REF_UNIT u_base /end UNIT"#,
    );
    let bm = &b.project.module[0];
    assert_eq!(bm.unit["u_derived"].ref_unit.as_ref().unwrap().unit, "u_base");
    assert_ne!(a.project.module[0].unit["u_base"], bm.unit["u_base"]);

    a.merge_modules(&mut b);

    let am = &a.project.module[0];
    assert_eq!(am.unit.len(), 3);
    assert!(am.unit.get("u_base.MERGE").is_some());
    assert_eq!(am.unit["u_base.MERGE"].long_identifier, "B base");
    let observed = &am.unit["u_derived"].ref_unit.as_ref().unwrap().unit;
    eprintln!("site01 observed UNIT u_derived REF_UNIT = {observed:?}");
    assert_eq!(observed, "u_base.MERGE");
}

// ---------------------------------------------------------------------------------
// 2. typedef -> INSTANCE.type_ref
#[test]
fn site02_instance_type_ref() {
    let mut a = load(r#"/begin TYPEDEF_STRUCTURE T "A struct" 4 /end TYPEDEF_STRUCTURE"#);
    let mut b = load(
        r#"/begin TYPEDEF_STRUCTURE T "B struct" 8 /end TYPEDEF_STRUCTURE
           /begin INSTANCE i "" T 0x1000 /end INSTANCE"#,
    );
    let bm = &b.project.module[0];
    assert_eq!(bm.instance["i"].type_ref, "T");
    assert_eq!(bm.typedef_structure["T"].total_size, 8);

    a.merge_modules(&mut b);

    let am = &a.project.module[0];
    assert_eq!(am.typedef_structure.len(), 2);
    assert_eq!(am.typedef_structure["T"].total_size, 4);
    assert_eq!(am.typedef_structure["T.MERGE"].total_size, 8);
    let observed = &am.instance["i"].type_ref;
    eprintln!("site02 observed INSTANCE i type_ref = {observed:?}");
    assert_eq!(observed, "T.MERGE");
}

// ---------------------------------------------------------------------------------
// 3. MEASUREMENT -> CHARACTERISTIC.COMPARISON_QUANTITY.name
#[test]
fn site03_comparison_quantity() {
    let mut a = load(r#"/begin MEASUREMENT M "A" UBYTE NO_COMPU_METHOD 1 1.0 0 100 /end MEASUREMENT"#);
    let mut b = load(
        r#"/begin MEASUREMENT M "B" SWORD NO_COMPU_METHOD 1 1.0 0 100 /end MEASUREMENT
           /begin CHARACTERISTIC c1 "" VALUE 0x1000 rl 0 NO_COMPU_METHOD 0 100
             COMPARISON_QUANTITY M
           /end CHARACTERISTIC"#,
    );
    let bm = &b.project.module[0];
    assert_eq!(
        bm.characteristic["c1"].comparison_quantity.as_ref().unwrap().name,
        "M"
    );

    a.merge_modules(&mut b);

    let am = &a.project.module[0];
    assert_eq!(am.measurement.len(), 2);
    assert_eq!(am.measurement["M"].long_identifier, "A");
    assert_eq!(am.measurement["M.MERGE"].long_identifier, "B");
    let observed = &am.characteristic["c1"]
        .comparison_quantity
        .as_ref()
        .unwrap()
        .name;
    eprintln!("site03 observed CHARACTERISTIC c1 COMPARISON_QUANTITY = {observed:?}");
    assert_eq!(observed, "M.MERGE");
}

// ---------------------------------------------------------------------------------
// 4. CHARACTERISTIC -> CHARACTERISTIC.MAP_LIST.name_list
#[test]
fn site04_map_list() {
    let mut a = load(r#"/begin CHARACTERISTIC C "A" MAP 0x1000 rl 0 NO_COMPU_METHOD 0 100 /end CHARACTERISTIC"#);
    let mut b = load(
        r#"/begin CHARACTERISTIC C "B" MAP 0x2000 rl 0 NO_COMPU_METHOD 0 100 /end CHARACTERISTIC
           /begin CHARACTERISTIC cub "" CUBOID 0x3000 rl 0 NO_COMPU_METHOD 0 100
             /begin MAP_LIST C /end MAP_LIST
           /end CHARACTERISTIC"#,
    );
    let bm = &b.project.module[0];
    assert_eq!(
        bm.characteristic["cub"].map_list.as_ref().unwrap().name_list,
        vec!["C".to_string()]
    );

    a.merge_modules(&mut b);

    let am = &a.project.module[0];
    assert_eq!(am.characteristic.len(), 3);
    assert_eq!(am.characteristic["C"].address, 0x1000);
    assert_eq!(am.characteristic["C.MERGE"].address, 0x2000);
    let observed = &am.characteristic["cub"].map_list.as_ref().unwrap().name_list;
    eprintln!("site04 observed CHARACTERISTIC cub MAP_LIST = {observed:?}");
    assert_eq!(observed, &vec!["C.MERGE".to_string()]);
}

// ---------------------------------------------------------------------------------
// 5. CHARACTERISTIC -> CHARACTERISTIC.VIRTUAL_CHARACTERISTIC.characteristic_list
#[test]
fn site05_virtual_characteristic() {
    let mut a = load(r#"/begin CHARACTERISTIC C "A" VALUE 0x1000 rl 0 NO_COMPU_METHOD 0 100 /end CHARACTERISTIC"#);
    let mut b = load(
        r#"/begin CHARACTERISTIC C "B" VALUE 0x2000 rl 0 NO_COMPU_METHOD 0 100 /end CHARACTERISTIC
           /begin CHARACTERISTIC cv "" VALUE 0x3000 rl 0 NO_COMPU_METHOD 0 100
             /begin VIRTUAL_CHARACTERISTIC "X1 * 2" C /end VIRTUAL_CHARACTERISTIC
           /end CHARACTERISTIC"#,
    );
    let bm = &b.project.module[0];
    assert_eq!(
        bm.characteristic["cv"]
            .virtual_characteristic
            .as_ref()
            .unwrap()
            .characteristic_list,
        vec!["C".to_string()]
    );

    a.merge_modules(&mut b);

    let am = &a.project.module[0];
    assert_eq!(am.characteristic.len(), 3);
    assert_eq!(am.characteristic["C.MERGE"].address, 0x2000);
    let observed = &am.characteristic["cv"]
        .virtual_characteristic
        .as_ref()
        .unwrap()
        .characteristic_list;
    eprintln!("site05 observed CHARACTERISTIC cv VIRTUAL_CHARACTERISTIC list = {observed:?}");
    assert_eq!(observed, &vec!["C.MERGE".to_string()]);
}

// ---------------------------------------------------------------------------------
// 6. MEASUREMENT -> MEASUREMENT.VIRTUAL.measuring_channel_list
#[test]
fn site06_measurement_virtual() {
    let mut a = load(r#"/begin MEASUREMENT M "A" UBYTE NO_COMPU_METHOD 1 1.0 0 100 /end MEASUREMENT"#);
    let mut b = load(
        r#"/begin MEASUREMENT M "B" SWORD NO_COMPU_METHOD 1 1.0 0 100 /end MEASUREMENT
           /begin MEASUREMENT mv "" UBYTE NO_COMPU_METHOD 1 1.0 0 100
             /begin VIRTUAL M /end VIRTUAL
           /end MEASUREMENT"#,
    );
    let bm = &b.project.module[0];
    assert_eq!(
        bm.measurement["mv"]
            .var_virtual
            .as_ref()
            .unwrap()
            .measuring_channel_list,
        vec!["M".to_string()]
    );

    a.merge_modules(&mut b);

    let am = &a.project.module[0];
    assert_eq!(am.measurement.len(), 3);
    assert_eq!(am.measurement["M.MERGE"].long_identifier, "B");
    let observed = &am.measurement["mv"]
        .var_virtual
        .as_ref()
        .unwrap()
        .measuring_channel_list;
    eprintln!("site06 observed MEASUREMENT mv VIRTUAL list = {observed:?}");
    assert_eq!(observed, &vec!["M.MERGE".to_string()]);
}

// ---------------------------------------------------------------------------------
// 7. MEASUREMENT -> TYPEDEF_AXIS.input_quantity
#[test]
fn site07_typedef_axis_input_quantity() {
    let mut a = load(r#"/begin MEASUREMENT M "A" UBYTE NO_COMPU_METHOD 1 1.0 0 100 /end MEASUREMENT"#);
    let mut b = load(
        r#"/begin MEASUREMENT M "B" SWORD NO_COMPU_METHOD 1 1.0 0 100 /end MEASUREMENT
           /begin TYPEDEF_AXIS ta "" M rl 0 NO_COMPU_METHOD 8 0 100 /end TYPEDEF_AXIS"#,
    );
    let bm = &b.project.module[0];
    assert_eq!(bm.typedef_axis["ta"].input_quantity, "M");

    a.merge_modules(&mut b);

    let am = &a.project.module[0];
    assert_eq!(am.measurement.len(), 2);
    assert_eq!(am.measurement["M.MERGE"].long_identifier, "B");
    let observed = &am.typedef_axis["ta"].input_quantity;
    eprintln!("site07 observed TYPEDEF_AXIS ta input_quantity = {observed:?}");
    assert_eq!(observed, "M.MERGE");
}

// ---------------------------------------------------------------------------------
// 8. MEASUREMENT -> INSTANCE.OVERWRITE.INPUT_QUANTITY.name
#[test]
fn site08_overwrite_input_quantity() {
    let mut a = load(r#"/begin MEASUREMENT M "A" UBYTE NO_COMPU_METHOD 1 1.0 0 100 /end MEASUREMENT"#);
    let mut b = load(
        r#"/begin MEASUREMENT M "B" SWORD NO_COMPU_METHOD 1 1.0 0 100 /end MEASUREMENT
           /begin INSTANCE i "" some_typedef 0x1000
             /begin OVERWRITE ow 1
               INPUT_QUANTITY M
             /end OVERWRITE
           /end INSTANCE"#,
    );
    let bm = &b.project.module[0];
    assert_eq!(
        bm.instance["i"].overwrite[0]
            .input_quantity
            .as_ref()
            .unwrap()
            .name,
        "M"
    );

    a.merge_modules(&mut b);

    let am = &a.project.module[0];
    assert_eq!(am.measurement.len(), 2);
    assert_eq!(am.measurement["M.MERGE"].long_identifier, "B");
    let observed = &am.instance["i"].overwrite[0]
        .input_quantity
        .as_ref()
        .unwrap()
        .name;
    eprintln!("site08 observed INSTANCE i OVERWRITE INPUT_QUANTITY = {observed:?}");
    assert_eq!(observed, "M.MERGE");
}

// ---------------------------------------------------------------------------------
// 9. COMPU_METHOD -> INSTANCE.OVERWRITE.CONVERSION.name
#[test]
fn site09_overwrite_conversion() {
    let mut a = load(r#"/begin COMPU_METHOD CM "A" IDENTICAL "%4.2" "unitA" /end COMPU_METHOD"#);
    let mut b = load(
        r#"/begin COMPU_METHOD CM "B" IDENTICAL "%6.3" "unitB" /end COMPU_METHOD
           /begin INSTANCE i "" some_typedef 0x1000
             /begin OVERWRITE ow 0
               CONVERSION CM
             /end OVERWRITE
           /end INSTANCE"#,
    );
    let bm = &b.project.module[0];
    assert_eq!(
        bm.instance["i"].overwrite[0].conversion.as_ref().unwrap().name,
        "CM"
    );

    a.merge_modules(&mut b);

    let am = &a.project.module[0];
    assert_eq!(am.compu_method.len(), 2);
    assert_eq!(am.compu_method["CM"].long_identifier, "A");
    assert_eq!(am.compu_method["CM.MERGE"].long_identifier, "B");
    let observed = &am.instance["i"].overwrite[0]
        .conversion
        .as_ref()
        .unwrap()
        .name;
    eprintln!("site09 observed INSTANCE i OVERWRITE CONVERSION = {observed:?}");
    assert_eq!(observed, "CM.MERGE");
}

// ---------------------------------------------------------------------------------
// 10. CHARACTERISTIC -> VARIANT_CODING.VAR_CHARACTERISTIC name
#[test]
fn site10_var_characteristic_name() {
    let mut a = load(r#"/begin CHARACTERISTIC C "A" VALUE 0x1000 rl 0 NO_COMPU_METHOD 0 100 /end CHARACTERISTIC"#);
    let mut b = load(
        r#"/begin CHARACTERISTIC C "B" VALUE 0x2000 rl 0 NO_COMPU_METHOD 0 100 /end CHARACTERISTIC
           /begin VARIANT_CODING
             /begin VAR_CRITERION crit "" v1 v2 /end VAR_CRITERION
             /begin VAR_CHARACTERISTIC C crit
               /begin VAR_ADDRESS 0x2000 0x2100 /end VAR_ADDRESS
             /end VAR_CHARACTERISTIC
           /end VARIANT_CODING"#,
    );
    let bm = &b.project.module[0];
    let bvc = bm.variant_coding.as_ref().unwrap();
    assert_eq!(bvc.var_characteristic.len(), 1);
    assert_eq!(bvc.var_characteristic[0].get_name(), "C");
    assert!(a.project.module[0].variant_coding.is_none());

    a.merge_modules(&mut b);

    let am = &a.project.module[0];
    assert_eq!(am.characteristic.len(), 2);
    assert_eq!(am.characteristic["C"].address, 0x1000);
    assert_eq!(am.characteristic["C.MERGE"].address, 0x2000);
    let avc = am.variant_coding.as_ref().expect("VARIANT_CODING taken over from B");
    assert_eq!(avc.var_characteristic.len(), 1);
    let observed = avc.var_characteristic[0].get_name();
    eprintln!("site10 observed VAR_CHARACTERISTIC name = {observed:?}");
    assert_eq!(observed, "C.MERGE");
    // the by-name lookup must be consistent too
    assert!(avc.var_characteristic.get("C.MERGE").is_some());
    assert!(avc.var_characteristic.get("C").is_none());
}

// ---------------------------------------------------------------------------------
// 11. wrong table: object rename table applied to VAR_CHARACTERISTIC.criterion_name_list
#[test]
fn site11_criterion_name_list_wrong_table() {
    let mut a = load(r#"/begin MEASUREMENT X "A" UBYTE NO_COMPU_METHOD 1 1.0 0 100 /end MEASUREMENT"#);
    let mut b = load(
        r#"/begin MEASUREMENT X "B" SWORD NO_COMPU_METHOD 1 1.0 0 100 /end MEASUREMENT
           /begin CHARACTERISTIC c1 "" VALUE 0x2000 rl 0 NO_COMPU_METHOD 0 100 /end CHARACTERISTIC
           /begin VARIANT_CODING
             /begin VAR_CRITERION X "" v1 v2 /end VAR_CRITERION
             /begin VAR_CHARACTERISTIC c1 X
               /begin VAR_ADDRESS 0x2000 0x2100 /end VAR_ADDRESS
             /end VAR_CHARACTERISTIC
           /end VARIANT_CODING"#,
    );
    let bm = &b.project.module[0];
    let bvc = bm.variant_coding.as_ref().unwrap();
    assert!(bvc.var_criterion.get("X").is_some());
    assert_eq!(
        bvc.var_characteristic["c1"].criterion_name_list,
        vec!["X".to_string()]
    );

    a.merge_modules(&mut b);

    let am = &a.project.module[0];
    assert_eq!(am.measurement.len(), 2);
    assert_eq!(am.measurement["X.MERGE"].long_identifier, "B");
    let avc = am.variant_coding.as_ref().expect("VARIANT_CODING taken over from B");
    assert!(avc.var_criterion.get("X").is_some());
    assert!(avc.var_criterion.get("X.MERGE").is_none());
    let observed = &avc.var_characteristic["c1"].criterion_name_list;
    eprintln!("site11 observed VAR_CHARACTERISTIC c1 criterion_name_list = {observed:?}");
    assert_eq!(observed, &vec!["X".to_string()]);
}

// ---------------------------------------------------------------------------------
// control: UNIT -> COMPU_METHOD.REF_UNIT.unit (handled by rename_unit_refs)
#[test]
fn control_compu_method_ref_unit() {
    let mut a = load(r#"/begin UNIT u_base "A base" "a" EXTENDED_SI /end UNIT"#);
    let mut b = load(
        r#"/begin UNIT u_base "B base" "b" EXTENDED_SI /end UNIT
           /begin COMPU_METHOD cm "" IDENTICAL "%4.2" "b" REF_UNIT u_base /end COMPU_METHOD"#,
    );
    let bm = &b.project.module[0];
    assert_eq!(bm.compu_method["cm"].ref_unit.as_ref().unwrap().unit, "u_base");

    a.merge_modules(&mut b);

    let am = &a.project.module[0];
    assert_eq!(am.unit.len(), 2);
    assert_eq!(am.unit["u_base.MERGE"].long_identifier, "B base");
    let observed = &am.compu_method["cm"].ref_unit.as_ref().unwrap().unit;
    eprintln!("control observed COMPU_METHOD cm REF_UNIT = {observed:?}");
    assert_eq!(observed, "u_base.MERGE");
}

// ---------------------------------------------------------------------------------
// control: CHARACTERISTIC -> CHARACTERISTIC.DEPENDENT_CHARACTERISTIC list (handled by rename_objects)
#[test]
fn control_dependent_characteristic() {
    let mut a = load(r#"/begin CHARACTERISTIC C "A" VALUE 0x1000 rl 0 NO_COMPU_METHOD 0 100 /end CHARACTERISTIC"#);
    let mut b = load(
        r#"/begin CHARACTERISTIC C "B" VALUE 0x2000 rl 0 NO_COMPU_METHOD 0 100 /end CHARACTERISTIC
           /begin CHARACTERISTIC cd "" VALUE 0x3000 rl 0 NO_COMPU_METHOD 0 100
             /begin DEPENDENT_CHARACTERISTIC "X1 * 2" C /end DEPENDENT_CHARACTERISTIC
           /end CHARACTERISTIC"#,
    );
    let bm = &b.project.module[0];
    assert_eq!(
        bm.characteristic["cd"]
            .dependent_characteristic
            .as_ref()
            .unwrap()
            .characteristic_list,
        vec!["C".to_string()]
    );

    a.merge_modules(&mut b);

    let am = &a.project.module[0];
    assert_eq!(am.characteristic.len(), 3);
    assert_eq!(am.characteristic["C.MERGE"].address, 0x2000);
    let observed = &am.characteristic["cd"]
        .dependent_characteristic
        .as_ref()
        .unwrap()
        .characteristic_list;
    eprintln!("control observed CHARACTERISTIC cd DEPENDENT_CHARACTERISTIC list = {observed:?}");
    assert_eq!(observed, &vec!["C.MERGE".to_string()]);
}
