use a2lfile::*;
fn load(s: &str, strict: bool) -> Result<(A2lFile, Vec<A2lError>), A2lError> {
    load_from_string(s, None, strict)
}
#[test]
fn a2ml_block_eof() {
    let _ = load("ASAP2_VERSION 1 71 /begin PROJECT p \"\" /begin MODULE m \"\" /begin A2ML block", false);
}
#[test]
fn a2ml_lone_quote() {
    let _ = load("ASAP2_VERSION 1 71 /begin PROJECT p \"\" /begin MODULE m \"\" /begin A2ML \" /end A2ML /end MODULE /end PROJECT", false);
}
#[test]
fn ifdata_raw_a2ml_token() {
    let _ = load("ASAP2_VERSION 1 71 /begin PROJECT p \"\" /begin MODULE m \"\" /begin IF_DATA X /begin A2ML\"/end A2ML /end IF_DATA /end MODULE /end PROJECT", false);
}
#[test]
fn ifdata_raw_a2ml_token_multibyte() {
    let _ = load("ASAP2_VERSION 1 71 /begin PROJECT p \"\" /begin MODULE m \"\" /begin IF_DATA X /begin A2ML\"é /end A2ML /end IF_DATA /end MODULE /end PROJECT", false);
}
