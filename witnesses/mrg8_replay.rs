use a2lfile::*;

// C08 replay (U-MRG8): FUNCTION f exists on both sides; B's DEF_CHARACTERISTIC / REF_CHARACTERISTIC members are lost
#[test]
fn function_def_characteristic_of_b_is_lost() {
    static FILE_A: &str = r#"ASAP2_VERSION 1 71 /begin PROJECT p "" /begin MODULE m ""
        /begin CHARACTERISTIC c1 "" VALUE 0x1234 deposit_ident 0 NO_COMPU_METHOD 0.0 10.0
        /end CHARACTERISTIC
        /begin FUNCTION f ""
            /begin DEF_CHARACTERISTIC c1 /end DEF_CHARACTERISTIC
            /begin REF_CHARACTERISTIC c1 /end REF_CHARACTERISTIC
        /end FUNCTION
    /end MODULE /end PROJECT"#;
    static FILE_B: &str = r#"ASAP2_VERSION 1 71 /begin PROJECT p "" /begin MODULE m ""
        /begin CHARACTERISTIC c2 "" VALUE 0x5678 deposit_ident 0 NO_COMPU_METHOD 0.0 10.0
        /end CHARACTERISTIC
        /begin FUNCTION f ""
            /begin DEF_CHARACTERISTIC c2 /end DEF_CHARACTERISTIC
            /begin REF_CHARACTERISTIC c2 /end REF_CHARACTERISTIC
        /end FUNCTION
    /end MODULE /end PROJECT"#;
    let (mut a, _) = load_from_string(FILE_A, None, true).unwrap();
    let (mut b, _) = load_from_string(FILE_B, None, true).unwrap();
    a.merge_modules(&mut b);
    let m = &a.project.module[0];
    assert_eq!(m.characteristic.len(), 2); // c2 was added
    assert_eq!(m.function.len(), 1);
    let f = &m.function[0];
    let def = &f.def_characteristic.as_ref().unwrap().identifier_list;
    let rf = &f.ref_characteristic.as_ref().unwrap().identifier_list;
    println!("DEF_CHARACTERISTIC = {:?}  REF_CHARACTERISTIC = {:?}", def, rf);
    // property C08 ("same-name FUNCTIONs only gain members", every member of B represented) would demand:
    assert!(def.contains(&"c2".to_string()), "B's DEF_CHARACTERISTIC member c2 was dropped");
    assert!(rf.contains(&"c2".to_string()), "B's REF_CHARACTERISTIC member c2 was dropped");
}

// control: the lists the code does merge
#[test]
fn function_in_measurement_of_b_is_kept() {
    static FILE_A: &str = r#"ASAP2_VERSION 1 71 /begin PROJECT p "" /begin MODULE m ""
        /begin FUNCTION f "" /begin IN_MEASUREMENT m1 /end IN_MEASUREMENT /end FUNCTION
    /end MODULE /end PROJECT"#;
    static FILE_B: &str = r#"ASAP2_VERSION 1 71 /begin PROJECT p "" /begin MODULE m ""
        /begin FUNCTION f "" /begin IN_MEASUREMENT m2 /end IN_MEASUREMENT /end FUNCTION
    /end MODULE /end PROJECT"#;
    let (mut a, _) = load_from_string(FILE_A, None, false).unwrap();
    let (mut b, _) = load_from_string(FILE_B, None, false).unwrap();
    a.merge_modules(&mut b);
    let f = &a.project.module[0].function[0];
    assert_eq!(f.in_measurement.as_ref().unwrap().identifier_list, vec!["m1".to_string(), "m2".to_string()]);
}
