// Replay of candidate finding C10-ARPROTO (property C10: cleanup removes only, and all, unreferenced helper elements)
//
// FUNCTION / AR_COMPONENT / AR_PROTOTYPE_OF is a reference to a FUNCTION. cleanup() must not remove a FUNCTION that a
// remaining FUNCTION names there; it must still remove the FUNCTION when the referrer goes away, and cleanup must be idempotent.

use a2lfile::{A2lFile, A2lObjectName};

fn load(module_content: &str) -> A2lFile {
    let text = format!(
        "ASAP2_VERSION 1 71\n/begin PROJECT p \"\"\n/begin MODULE m \"\"\n{module_content}\n/end MODULE\n/end PROJECT\n"
    );
    let (a2l, log) = a2lfile::load_from_string(&text, None, true).unwrap();
    assert!(log.is_empty(), "{log:?}");
    a2l
}

fn function_names(a2l: &A2lFile) -> Vec<String> {
    a2l.project.module[0]
        .function
        .iter()
        .map(|f| f.get_name().to_string())
        .collect()
}

const MEAS: &str = "/begin MEASUREMENT m1 \"\" UBYTE NO_COMPU_METHOD 0 0 0 255 /end MEASUREMENT\n";

/// the candidate as recorded in drivers/notes/C10.md
#[test]
fn replay_c10_arproto() {
    let mut a2l = load(&format!(
        "{MEAS}
        /begin FUNCTION f1 \"\"
          /begin AR_COMPONENT \"x\" AR_PROTOTYPE_OF f2 /end AR_COMPONENT
          /begin LOC_MEASUREMENT m1 /end LOC_MEASUREMENT
        /end FUNCTION
        /begin FUNCTION f2 \"\" /end FUNCTION
        /begin FUNCTION f3 \"\" /end FUNCTION"
    ));
    let before = a2l.clone();
    a2l.cleanup();
    // f1 has content and remains; f1 refers to f2 -> f2 must remain; nothing refers to f3 -> removed
    assert_eq!(function_names(&a2l), ["f1", "f2"]);
    let module = &a2l.project.module[0];
    // the remaining functions are unaltered
    assert_eq!(module.function[0], before.project.module[0].function[0]);
    assert_eq!(module.function[1], before.project.module[0].function[1]);
    // the reference of the remaining function f1 resolves
    let target = &module.function[0]
        .ar_component
        .as_ref()
        .unwrap()
        .ar_prototype_of
        .as_ref()
        .unwrap()
        .name;
    assert!(module.function.contains_key(target));
    // idempotence
    let once = a2l.clone();
    a2l.cleanup();
    assert_eq!(a2l, once);
    assert_eq!(a2l.write_to_string(), once.write_to_string());
}

/// neighbouring cases: the reference only protects while the referrer remains ("removes all unreferenced"),
/// chains are followed, and the result does not depend on the definition order
#[test]
fn replay_c10_arproto_neighbours() {
    // the referrer f1 is empty and unused: it is removed, and so is f2 (in one run: cleanup twice == once)
    for funcs in [
        [
            "/begin FUNCTION f1 \"\" /begin AR_COMPONENT \"x\" AR_PROTOTYPE_OF f2 /end AR_COMPONENT /end FUNCTION",
            "/begin FUNCTION f2 \"\" /end FUNCTION",
        ],
        [
            "/begin FUNCTION f2 \"\" /end FUNCTION",
            "/begin FUNCTION f1 \"\" /begin AR_COMPONENT \"x\" AR_PROTOTYPE_OF f2 /end AR_COMPONENT /end FUNCTION",
        ],
    ] {
        let mut a2l = load(&format!("{MEAS}{}\n{}", funcs[0], funcs[1]));
        a2l.cleanup();
        assert_eq!(function_names(&a2l), Vec::<String>::new());
    }

    // chain: used f1 -> f2 -> f3, all definition orders; f4 is unused
    let defs = [
        "/begin FUNCTION f1 \"\" /begin AR_COMPONENT \"x\" AR_PROTOTYPE_OF f2 /end AR_COMPONENT /end FUNCTION",
        "/begin FUNCTION f2 \"\" /begin AR_COMPONENT \"x\" AR_PROTOTYPE_OF f3 /end AR_COMPONENT /end FUNCTION",
        "/begin FUNCTION f3 \"\" /end FUNCTION",
        "/begin FUNCTION f4 \"\" /begin AR_COMPONENT \"x\" AR_PROTOTYPE_OF f3 /end AR_COMPONENT /end FUNCTION",
    ];
    let meas_f1 = "/begin MEASUREMENT m1 \"\" UBYTE NO_COMPU_METHOD 0 0 0 255 /begin FUNCTION_LIST f1 /end FUNCTION_LIST /end MEASUREMENT\n";
    for order in [[0, 1, 2, 3], [3, 2, 1, 0], [2, 0, 3, 1], [1, 3, 0, 2]] {
        let text: Vec<&str> = order.iter().map(|i| defs[*i]).collect();
        let mut a2l = load(&format!("{meas_f1}{}", text.join("\n")));
        a2l.cleanup();
        let mut names = function_names(&a2l);
        names.sort();
        assert_eq!(names, ["f1", "f2", "f3"], "order {order:?}");
        let once = a2l.clone();
        a2l.cleanup();
        assert_eq!(a2l, once);
    }

    // the same chain without the FUNCTION_LIST: everything goes, in one run
    for order in [[0, 1, 2, 3], [3, 2, 1, 0], [2, 0, 3, 1], [1, 3, 0, 2]] {
        let text: Vec<&str> = order.iter().map(|i| defs[*i]).collect();
        let mut a2l = load(&format!("{MEAS}{}", text.join("\n")));
        a2l.cleanup();
        assert_eq!(
            function_names(&a2l),
            Vec::<String>::new(),
            "order {order:?}"
        );
    }

    // f2 is the prototype target of a sub-function that disappears: f0 -> SUB_FUNCTION f1 -> AR_PROTOTYPE_OF f2
    let mut a2l = load(&format!(
        "{MEAS}
        /begin FUNCTION f2 \"\" /end FUNCTION
        /begin FUNCTION f0 \"\" /begin SUB_FUNCTION f1 /end SUB_FUNCTION /end FUNCTION
        /begin FUNCTION f1 \"\" /begin AR_COMPONENT \"x\" AR_PROTOTYPE_OF f2 /end AR_COMPONENT /end FUNCTION"
    ));
    a2l.cleanup();
    assert_eq!(function_names(&a2l), Vec::<String>::new());
}
