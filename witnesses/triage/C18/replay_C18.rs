// Replay of the candidate findings of property C18 ("IF_DATA is interpreted exactly as the applicable A2ML definition
// says") against the public API of a2lfile. One test per candidate; each asserts what the property demands.

use a2lfile::{A2lError, A2lFile};

fn doc(a2ml: Option<&str>, ifdata: &str) -> String {
    let a2ml = match a2ml {
        Some(text) => format!("/begin A2ML\n{text}\n/end A2ML\n"),
        None => String::new(),
    };
    format!(
        "ASAP2_VERSION 1 71\n/begin PROJECT p \"\"\n/begin MODULE m \"\"\n{a2ml}{ifdata}\n/end MODULE\n/end PROJECT\n"
    )
}

fn load(
    text: &str,
    spec: Option<&str>,
    strict: bool,
) -> Result<(A2lFile, Vec<A2lError>), A2lError> {
    a2lfile::load_from_string(text, spec.map(str::to_string), strict)
}

/// tokens of a text, comments and whitespace removed (good enough for the inputs used here: no blanks inside strings)
fn tokens(text: &str) -> Vec<String> {
    let mut out = Vec::new();
    let mut rest = text;
    loop {
        rest = rest.trim_start();
        if rest.is_empty() {
            break;
        }
        if let Some(r) = rest.strip_prefix("/*") {
            rest = &r[r.find("*/").unwrap() + 2..];
        } else if let Some(r) = rest.strip_prefix("//") {
            rest = r.find('\n').map_or("", |p| &r[p..]);
        } else {
            let end = rest.find(char::is_whitespace).unwrap_or(rest.len());
            out.push(rest[..end].to_string());
            rest = &rest[end..];
        }
    }
    out
}

/// the definition is supplied in-file (A2ML block) and as built-in spec argument; strict and non-strict
fn supplies(a2ml: &str, ifdata: &str) -> Vec<(String, String, Option<String>, bool)> {
    let mut v = Vec::new();
    for strict in [true, false] {
        v.push((
            format!("in-file strict={strict}"),
            doc(Some(a2ml), ifdata),
            None,
            strict,
        ));
        v.push((
            format!("built-in strict={strict}"),
            doc(None, ifdata),
            Some(a2ml.to_string()),
            strict,
        ));
    }
    v
}

/// property: conforming content is recognised as valid, survives load + write, and is kept by ifdata_cleanup()
fn assert_conforming(a2ml: &str, ifdata: &str) {
    for (what, text, spec, strict) in supplies(a2ml, ifdata) {
        let (mut file, log) = load(&text, spec.as_deref(), strict)
            .unwrap_or_else(|e| panic!("{what}: load failed: {e}"));
        assert!(
            log.is_empty(),
            "{what}: warnings for a conforming file: {log:?}"
        );
        let module = &file.project.module[0];
        assert_eq!(module.if_data.len(), 1, "{what}");
        assert!(
            module.if_data[0].ifdata_valid,
            "{what}: conforming IF_DATA flagged invalid"
        );
        assert_eq!(
            tokens(&file.write_to_string()),
            tokens(&text),
            "{what}: written text differs"
        );
        file.ifdata_cleanup();
        assert_eq!(
            file.project.module[0].if_data.len(),
            1,
            "{what}: cleanup removed a conforming IF_DATA"
        );
    }
}

// C18-F1: keyword-form sequence of strings followed by another tag of the enclosing taggedstruct
#[test]
fn c18_f1_string_sequence_followed_by_tag() {
    let a2ml =
        r#"block "IF_DATA" taggedunion { "V" taggedstruct { "NAMES" (char[8])*; "NUM" uint; }; };"#;
    assert_conforming(a2ml, r#"/begin IF_DATA V NAMES "a" "b" NUM 5 /end IF_DATA"#);
}

// C18-F1, neighbouring shapes: sequence of structs that begin with a string; sequence followed by a block item
#[test]
fn c18_f1_string_sequence_neighbours() {
    let a2ml = r#"block "IF_DATA" taggedunion { "V" taggedstruct {
        "PAIRS" (struct { char[8]; uint; })*; block "BLK" uint; "NUM" uint; }; };"#;
    assert_conforming(
        a2ml,
        r#"/begin IF_DATA V PAIRS "a" 1 "b" 2 NUM 5 /end IF_DATA"#,
    );
    assert_conforming(
        a2ml,
        r#"/begin IF_DATA V PAIRS "a" 1 /begin BLK 3 /end BLK /end IF_DATA"#,
    );
}

// guard for the C18-F1 repair (passes on the unchanged tree as well): the tolerance of non-strict loading is kept, an
// identifier that is not a tag is still accepted in place of a string, with one warning
#[test]
fn c18_f1_guard_leniency_retained() {
    let a2ml =
        r#"block "IF_DATA" taggedunion { "V" taggedstruct { "NAMES" (char[8])*; "NUM" uint; }; };"#;
    let text = doc(
        Some(a2ml),
        r#"/begin IF_DATA V NUM 5 NAMES "a" foo /end IF_DATA"#,
    );
    let (file, log) = load(&text, None, false).unwrap();
    assert!(file.project.module[0].if_data[0].ifdata_valid);
    assert_eq!(log.len(), 1, "{log:?}");
    assert!(file.write_to_string().contains("NUM 5"));
    let (file, log) = load(&text, None, true).unwrap();
    assert!(!file.project.module[0].if_data[0].ifdata_valid);
    assert!(log.is_empty());
}

// C18-F2: repeated tagged member without content
#[test]
fn c18_f2_repeated_member_without_content() {
    let a2ml = r#"block "IF_DATA" taggedunion { "V" taggedstruct { ("FLAG")*; (block "BFLAG")*; "NUM" uint; }; };"#;
    assert_conforming(a2ml, "/begin IF_DATA V FLAG FLAG /begin BFLAG /end BFLAG NUM 5 /begin BFLAG /end BFLAG /end IF_DATA");
}

// C18-F3: IF_DATA without content, where the definition admits empty content
#[test]
fn c18_f3_empty_ifdata() {
    let a2ml = r#"block "IF_DATA" taggedstruct { "NUM" uint; };"#;
    assert_conforming(a2ml, "/begin IF_DATA /end IF_DATA");
}

// C18-F4: comment directly in front of /end IF_DATA
#[test]
fn c18_f4_comment_before_end_ifdata() {
    let a2ml = r#"block "IF_DATA" taggedunion { "V" taggedstruct { "NUM" uint; }; "S" uint; };"#;
    assert_conforming(a2ml, "/begin IF_DATA V NUM 5 /* c */ /end IF_DATA");
    assert_conforming(a2ml, "/begin IF_DATA V NUM 5 // c\n/end IF_DATA");
    assert_conforming(a2ml, "/begin IF_DATA V NUM 5 /* c */ /* d */\n/end IF_DATA");
    assert_conforming(a2ml, "/begin IF_DATA S 5 /* c */ /end IF_DATA");
    assert_conforming(a2ml, "/begin IF_DATA V /* c */ /end IF_DATA");
}

/// property (second sentence): non-conforming but balanced content is kept as uninterpreted data, flagged invalid, and
/// ifdata_cleanup() removes exactly that block
fn assert_kept_uninterpreted(a2ml: Option<&str>, ifdata: &str) {
    for strict in [true, false] {
        let text = doc(
            a2ml,
            &format!("{ifdata}\n/begin IF_DATA OTHER 1 /end IF_DATA"),
        );
        let (mut file, _) = load(&text, None, strict)
            .unwrap_or_else(|e| panic!("strict={strict}: load failed: {e}\n{text}"));
        let module = &file.project.module[0];
        assert_eq!(module.if_data.len(), 2);
        assert!(!module.if_data[0].ifdata_valid);
        assert!(module.if_data[0].ifdata_items.is_some());
        assert_eq!(
            tokens(&file.write_to_string()),
            tokens(&text),
            "strict={strict}: written text differs"
        );
        let (file2, _) = load(&file.write_to_string(), None, strict).expect("written text loads");
        assert_eq!(tokens(&file2.write_to_string()), tokens(&text));
        file.ifdata_cleanup();
        assert_eq!(file.project.module[0].if_data.len(), 0);
    }
}

// C18-F5: uninterpreted IF_DATA with a comment between two sub-blocks
#[test]
fn c18_f5_comment_between_unknown_blocks() {
    // no A2ML at all
    assert_kept_uninterpreted(
        None,
        "/begin IF_DATA X /begin A 1 /end A /* c */ /begin B 2 /end B /end IF_DATA",
    );
    assert_kept_uninterpreted(
        None,
        "/begin IF_DATA X /begin A 1 /end A // c\n/begin B 2 /end B /end IF_DATA",
    );
    // several comments, comment in front of the first and behind the last block
    assert_kept_uninterpreted(
        None,
        "/begin IF_DATA X /* a */ /begin A 1 /end A /* b */ /* c */ /begin B 2 /end B /* d */ /end IF_DATA",
    );
    // inside a nested block
    assert_kept_uninterpreted(
        None,
        "/begin IF_DATA X /begin O /begin A 1 /end A /* c */ /begin B 2 /end B /end O /end IF_DATA",
    );
    // values between the blocks
    assert_kept_uninterpreted(
        None,
        "/begin IF_DATA X 1 /begin A 1 /end A /* c */ 2 /* d */ /begin B 2 /end B 3 /end IF_DATA",
    );
    // no leading tag
    assert_kept_uninterpreted(
        None,
        "/begin IF_DATA /begin A 1 /end A /* c */ /begin B 2 /end B /end IF_DATA",
    );
    // an A2ML definition exists, but the block belongs to another vendor
    let a2ml = r#"block "IF_DATA" taggedunion { "V" taggedstruct { "NUM" uint; }; };"#;
    assert_kept_uninterpreted(
        Some(a2ml),
        "/begin IF_DATA X /begin A 1 /end A /* c */ /begin B 2 /end B /end IF_DATA",
    );
}

// C18-F4 + C18-F5 together: a conforming IF_DATA with both kinds of comments
#[test]
fn c18_f4_f5_conforming_block_with_both_comments() {
    let a2ml =
        r#"block "IF_DATA" taggedunion { "V" taggedstruct { block "A" uint; block "B" uint; }; };"#;
    assert_conforming(
        a2ml,
        "/begin IF_DATA V /begin A 1 /end A /* c */ /begin B 2 /end B /* d */ /end IF_DATA",
    );
}
