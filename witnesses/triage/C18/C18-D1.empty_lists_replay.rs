// replay of finding D1: A2ML definitions with empty member lists are grammatical ("struct" [ident] "{" [struct_member_list] "}")
fn load(aml_body: &str, ifdata: &str) -> (bool, bool) {
    let text = format!(
        "ASAP2_VERSION 1 71\n/begin PROJECT p \"\"\n/begin MODULE m \"\"\n/begin A2ML\n{}\n/end A2ML\n{}\n/end MODULE\n/end PROJECT\n",
        aml_body, ifdata
    );
    let (file, log) = a2lfile::load_from_string(&text, None, false).expect("loads");
    let valid = file.project.module[0].if_data.first().map(|i| i.ifdata_valid).unwrap_or(false);
    (log.is_empty(), valid)
}

#[test]
fn empty_struct() {
    let (clean, valid) = load("block \"IF_DATA\" taggedunion { \"V\" struct { uint; struct { }; }; };", "/begin IF_DATA V 5 /end IF_DATA");
    assert!(clean, "definition rejected");
    assert!(valid);
}

#[test]
fn empty_taggedstruct() {
    let (clean, valid) = load("block \"IF_DATA\" taggedunion { \"V\" struct { uint; taggedstruct { }; }; };", "/begin IF_DATA V 5 /end IF_DATA");
    assert!(clean, "definition rejected");
    assert!(valid);
}

#[test]
fn empty_taggedunion() {
    let (clean, valid) = load("block \"IF_DATA\" taggedunion { \"V\" struct { uint; taggedunion { }; }; };", "/begin IF_DATA V 5 /end IF_DATA");
    assert!(clean, "definition rejected");
    assert!(valid);
}
