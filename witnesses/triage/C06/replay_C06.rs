// Replay of the candidate findings of property C06
// "Strict and non-strict loading agree except on recoverable problems".
// Every test asserts what the property demands and uses the public API only.

use a2lfile::{A2lError, ParserError};
use std::io::Write;

/// writes main.a2l (MODULE body included from inc.a2l) and returns (tempdir, path of main.a2l)
fn write_files(inc_text: &str) -> (tempfile::TempDir, std::path::PathBuf) {
    let dir = tempfile::tempdir().unwrap();
    let main_path = dir.path().join("main.a2l");
    let inc_path = dir.path().join("inc.a2l");
    let main_text = "ASAP2_VERSION 1 61\n/begin PROJECT p \"\"\n/begin MODULE m \"\"\n/include inc.a2l\n/end MODULE\n/end PROJECT\n";
    std::fs::File::create(&main_path)
        .unwrap()
        .write_all(main_text.as_bytes())
        .unwrap();
    std::fs::File::create(&inc_path)
        .unwrap()
        .write_all(inc_text.as_bytes())
        .unwrap();
    (dir, main_path)
}

fn parser_error(err: &A2lError) -> &ParserError {
    match err {
        A2lError::ParserError { parser_error } => parser_error,
        other => panic!("not a parser error: {other}"),
    }
}

/// file name and line of a diagnostic, taken from the rendered message "<file>:<line>: ..."
fn location(err: &A2lError) -> (String, String) {
    let text = parser_error(err).to_string();
    let mut parts = text.splitn(3, ':');
    let file = parts.next().unwrap_or("").to_string();
    let line = parts.next().unwrap_or("").to_string();
    (file, line)
}

// C06-F1: the problem is detected at a token in line 11 of inc.a2l. main.a2l only has 6 lines.
// Expected: every diagnostic names inc.a2l:11
fn check_included_location(inc_body: &str, check_variant: fn(&ParserError) -> bool) {
    let inc_text = format!("{}{inc_body}\n", "\n".repeat(10));
    let (_dir, main_path) = write_files(&inc_text);

    // non-strict: loads, one warning
    let (_, log) = a2lfile::load(&main_path, None, false).unwrap();
    assert_eq!(log.len(), 1, "{log:?}");
    assert!(check_variant(parser_error(&log[0])), "{}", log[0]);
    let (file, line) = location(&log[0]);
    assert_eq!(line, "11", "{}", log[0]);
    assert!(
        file.ends_with("inc.a2l"),
        "non-strict: diagnostic names the wrong file: {}",
        log[0]
    );

    // strict: fails with the same diagnostic
    let err = a2lfile::load(&main_path, None, true).unwrap_err();
    assert!(check_variant(parser_error(&err)), "{err}");
    let (file, line) = location(&err);
    assert_eq!(line, "11", "{err}");
    assert!(
        file.ends_with("inc.a2l"),
        "strict: diagnostic names the wrong file: {err}"
    );
}

#[test]
fn c06_f1_included_file_unknown_keyword() {
    check_included_location("UNKNOWN_KW 1 2", |e| {
        matches!(e, ParserError::UnknownSubBlock { .. })
    });
}

#[test]
fn c06_f1_included_file_too_new_element() {
    // TRANSFORMER exists from 1.70, the file declares 1.61
    check_included_location(
        r#"/begin TRANSFORMER t "1" "a" "b" 1 ON_CHANGE NO_INVERSE_TRANSFORMER /end TRANSFORMER"#,
        |e| matches!(e, ParserError::BlockRefTooNew { .. }),
    );
}

#[test]
fn c06_f1_included_file_multiplicity() {
    // MOD_COMMON may occur once; the second occurrence is on line 11 of inc.a2l
    let inc_text = format!(
        "/begin MOD_COMMON \"\" /end MOD_COMMON{}/begin MOD_COMMON \"\" /end MOD_COMMON\n",
        "\n".repeat(10)
    );
    let (_dir, main_path) = write_files(&inc_text);
    let (_, log) = a2lfile::load(&main_path, None, false).unwrap();
    assert_eq!(log.len(), 1, "{log:?}");
    assert!(matches!(
        parser_error(&log[0]),
        ParserError::InvalidMultiplicityTooMany { .. }
    ));
    let (file, line) = location(&log[0]);
    assert_eq!(line, "11", "{}", log[0]);
    assert!(file.ends_with("inc.a2l"), "wrong file: {}", log[0]);
}

#[test]
fn c06_f1_included_file_hard_error() {
    // a hard error (block element without /begin) at the level of the including block
    let inc_text = format!("{}MOD_COMMON \"\"\n", "\n".repeat(10));
    let (_dir, main_path) = write_files(&inc_text);
    for strict in [false, true] {
        let err = a2lfile::load(&main_path, None, strict).unwrap_err();
        assert!(
            matches!(parser_error(&err), ParserError::IncorrectBlockError { .. }),
            "{err}"
        );
        let (file, line) = location(&err);
        assert_eq!(line, "11", "{err}");
        assert!(file.ends_with("inc.a2l"), "wrong file: {err}");
    }
}

// C06-F2: the two version diagnostics have no location at all
#[test]
fn c06_f2_version_diagnostics_have_location() {
    // no ASAP2_VERSION: detected at the first token of the file (line 3)
    let text = "\n\n/begin PROJECT p \"\" /begin MODULE m \"\" /end MODULE /end PROJECT";
    let (_, log) = a2lfile::load_from_string(text, None, false).unwrap();
    assert_eq!(log.len(), 1);
    assert!(matches!(
        parser_error(&log[0]),
        ParserError::MissingVersionInfo { .. }
    ));
    let (_file, line) = location(&log[0]);
    assert_eq!(line, "3", "no line in: {}", log[0]);

    // unknown version
    let text = "\n\nASAP2_VERSION 1 99 /begin PROJECT p \"\" /begin MODULE m \"\" /end MODULE /end PROJECT";
    let (_, log) = a2lfile::load_from_string(text, None, false).unwrap();
    assert_eq!(log.len(), 1);
    assert!(matches!(
        parser_error(&log[0]),
        ParserError::InvalidVersion { .. }
    ));
    let (_file, line) = location(&log[0]);
    assert_eq!(line, "3", "no line in: {}", log[0]);
}

// C06-F3: strict load succeeds => non-strict load succeeds
#[test]
fn c06_f3_strict_ok_implies_nonstrict_ok() {
    let text = r#"ASAP2_VERSION 1 71
/begin PROJECT p ""
/begin MODULE m ""
/begin A2ML
block "IF_DATA" taggedunion { "V" taggedstruct { "NAMES" (char[8])*; "NUM" uint; (block "B" uint)*; }; };
/end A2ML
/begin IF_DATA V NAMES "a" NUM 5 /begin B 1 /end B /* c */ /begin B 2 /end B /end IF_DATA
/end MODULE
/end PROJECT
"#;
    let strict = a2lfile::load_from_string(text, None, true);
    let (a2l_strict, log_strict) = strict.expect("strict load succeeds");
    assert!(log_strict.is_empty());
    assert!(a2l_strict.project.module[0].if_data[0].ifdata_valid);

    let nonstrict = a2lfile::load_from_string(text, None, false);
    assert!(
        nonstrict.is_ok(),
        "strict load succeeds but non-strict load fails: {}",
        nonstrict.err().unwrap()
    );
}

// the two ingredients of C06-F3 on their own (C18-F1, C18-F5); for the record only
#[test]
fn c06_f3_part_c18_f5_comment_between_blocks_of_uninterpreted_ifdata() {
    let text = r#"ASAP2_VERSION 1 71
/begin PROJECT p ""
/begin MODULE m ""
/begin IF_DATA X /begin A 1 /end A /* c */ /begin B 2 /end B /end IF_DATA
/end MODULE
/end PROJECT
"#;
    for strict in [true, false] {
        let result = a2lfile::load_from_string(text, None, strict);
        assert!(result.is_ok(), "strict={strict}: {}", result.err().unwrap());
    }
}

#[test]
fn c06_f3_part_c18_f1_string_sequence_followed_by_tag() {
    let text = r#"ASAP2_VERSION 1 71
/begin PROJECT p ""
/begin MODULE m ""
/begin A2ML
block "IF_DATA" taggedunion { "V" taggedstruct { "NAMES" (char[8])*; "NUM" uint; }; };
/end A2ML
/begin IF_DATA V NAMES "a" NUM 5 /end IF_DATA
/end MODULE
/end PROJECT
"#;
    let (a2l_strict, log_strict) = a2lfile::load_from_string(text, None, true).unwrap();
    assert!(log_strict.is_empty());
    assert!(a2l_strict.project.module[0].if_data[0].ifdata_valid);
    // non-strict loading succeeds without warnings <= it would have to, since the input is valid
    let (a2l, log) = a2lfile::load_from_string(text, None, false).unwrap();
    assert!(log.is_empty(), "{log:?}");
    assert!(a2l.project.module[0].if_data[0].ifdata_valid);
    assert_eq!(a2l, a2l_strict);
}

// neighbouring cases of C06-F1 that are correct with and without the fix (this test passes on the unchanged tree):
// a diagnostic inside a block that lies completely in the included file, and a diagnostic in the including file
// behind the /include
#[test]
fn c06_f1_neighbours_unchanged() {
    let dir = tempfile::tempdir().unwrap();
    let main_path = dir.path().join("main.a2l");
    let main_text = "ASAP2_VERSION 1 61\n/begin PROJECT p \"\"\n/begin MODULE m \"\"\n/include inc.a2l\nUNKNOWN_MAIN 1\n/end MODULE\n/end PROJECT\n";
    std::fs::write(&main_path, main_text).unwrap();
    let inc_text = "\n\n/begin MOD_COMMON \"\"\nUNKNOWN_INC 1\n/end MOD_COMMON\n";
    std::fs::write(dir.path().join("inc.a2l"), inc_text).unwrap();

    let (_, log) = a2lfile::load(&main_path, None, false).unwrap();
    assert_eq!(log.len(), 2, "{log:?}");
    let (file, line) = location(&log[0]);
    assert!(file.ends_with("inc.a2l") && line == "4", "{}", log[0]);
    let (file, line) = location(&log[1]);
    assert!(file.ends_with("main.a2l") && line == "5", "{}", log[1]);
}
