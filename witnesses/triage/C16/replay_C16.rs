// Replay of candidate finding C16-F3 (property C16: "merge_includes() makes the output self-contained and equal").
//
// An A2ML block that the A2ML parser rejects is accepted in non-strict mode with one diagnostic; the model keeps the text
// and write() reproduces it. merge_includes() must not change that (there is nothing to merge), but it erases the text.

use a2lfile::{A2lFile, A2lObject};

fn file_text(a2ml_content: &str) -> String {
    format!(
        "ASAP2_VERSION 1 71\n/begin PROJECT p \"\"\n/begin MODULE m \"\"\n/begin A2ML\n{a2ml_content}\n/end A2ML\n\
         /begin MEASUREMENT m1 \"\" UBYTE NO_COMPU_METHOD 0 0 0 255 /end MEASUREMENT\n/end MODULE\n/end PROJECT\n"
    )
}

fn load_nonstrict(text: &str, expected_diagnostics: usize) -> A2lFile {
    let (a2l, log) = a2lfile::load_from_string(text, None, false).unwrap();
    assert_eq!(log.len(), expected_diagnostics, "{log:?}");
    a2l
}

fn a2ml_text(a2l: &A2lFile) -> &str {
    &a2l.project.module[0].a2ml.as_ref().unwrap().a2ml_text
}

/// the candidate as recorded in drivers/notes/C16.md
#[test]
fn replay_c16_f3() {
    let text = file_text("this is not a2ml");
    let mut a2l = load_nonstrict(&text, 1);
    assert!(a2ml_text(&a2l).contains("this is not a2ml"));
    let before = a2l.clone();
    let written_before = a2l.write_to_string();
    assert!(written_before.contains("this is not a2ml"));

    a2l.merge_includes();

    // merge_includes() only flattens includes: the model and the written file are equal to what they were
    assert!(a2ml_text(&a2l).contains("this is not a2ml"));
    assert_eq!(a2l, before);
    assert_eq!(a2l.write_to_string(), written_before);
    // and the output reloads to the same model
    assert_eq!(load_nonstrict(&a2l.write_to_string(), 1), before);
}

/// neighbouring cases with the same root cause
#[test]
fn replay_c16_f3_neighbours() {
    // (1) inside the quantifier of C16: missing include file inside the A2ML block, strict off: load gives Ok plus a
    // diagnostic; merge_includes() must not erase the block (the directive cannot be resolved, so it stays)
    let dir = tempfile::tempdir().unwrap();
    let path = dir.path().join("main.a2l");
    let content = "block \"IF_DATA\" taggedunion if_data {\n/include \"missing.aml\"\n};";
    std::fs::write(&path, file_text(content)).unwrap();
    let (mut a2l, log) = a2lfile::load(&path, None, false).unwrap();
    assert_eq!(log.len(), 1, "{log:?}");
    let before = a2l.clone();
    a2l.merge_includes();
    assert!(a2ml_text(&a2l).contains("/include \"missing.aml\""));
    assert_eq!(a2l, before);

    // (2) merge() takes the A2ML block of the merged file through reset_location(), which calls merge_includes()
    let mut orig = load_nonstrict(
        "ASAP2_VERSION 1 71 /begin PROJECT p \"\" /begin MODULE m \"\" /end MODULE /end PROJECT",
        0,
    );
    let mut other = load_nonstrict(&file_text("this is not a2ml"), 1);
    orig.merge_modules(&mut other);
    assert!(a2ml_text(&orig).contains("this is not a2ml"));

    // (3) unchanged behaviour for valid A2ML: includes inside the block are still flattened
    std::fs::write(dir.path().join("part.aml"), "\"VFB\" struct { uint; };\n").unwrap();
    let content = "block \"IF_DATA\" taggedunion if_data {\n/include \"part.aml\"\n};";
    std::fs::write(&path, file_text(content)).unwrap();
    let (mut a2l, log) = a2lfile::load(&path, None, true).unwrap();
    assert!(log.is_empty(), "{log:?}");
    assert!(a2ml_text(&a2l).contains("/include"));
    a2l.merge_includes();
    assert!(!a2ml_text(&a2l).contains("/include"));
    assert!(a2ml_text(&a2l).contains("\"VFB\" struct { uint; };"));
}
