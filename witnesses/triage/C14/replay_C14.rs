// Replay of the candidate findings C14-A2ML-1 / C14-A2ML-2 (property C14: sort() is a pure reordering into the
// documented canonical order; "loading [the written file] again yields the same model in the same order").
//
// replay_c14_a2ml_1 / replay_c14_a2ml_2 assert the literal reload clause and FAIL on the unchanged tree.
// c14_a2ml_*_is_loader_scoping document why: sort() itself only reorders (model content and written tokens are
// unchanged); the reloaded model differs only because the loader interprets an IF_DATA with the A2ML blocks it has seen
// so far in the file, so ANY text with the A2ML block on the other side of the IF_DATA loads differently - with or
// without sort(). These two tests PASS on the unchanged tree.

use a2lfile::{A2lFile, A2lObjectName};

const A2ML: &str = r#"/begin A2ML
  block "IF_DATA" taggedunion if_data {
    "VFB" taggedstruct {
      (block "ITEM" struct { uint; })*;
      "FLAG";
    };
  };
/end A2ML"#;
const IF_DATA: &str = "/begin IF_DATA VFB /begin ITEM 1 /end ITEM FLAG /end IF_DATA";

fn load(text: &str) -> A2lFile {
    let (a2l, log) = a2lfile::load_from_string(text, None, true).unwrap();
    assert!(log.is_empty(), "{log:?}");
    a2l
}

fn tokens(text: &str) -> Vec<String> {
    text.split_whitespace().map(str::to_string).collect()
}

fn input_1() -> String {
    // A2ML block placed after an IF_DATA of the same module
    format!(
        "ASAP2_VERSION 1 71\n/begin PROJECT P \"\"\n/begin MODULE M \"\"\n{IF_DATA}\n{A2ML}\n/end MODULE\n/end PROJECT\n"
    )
}

fn input_2() -> String {
    // module b (with A2ML) is followed by module a (IF_DATA, no A2ML of its own); sort() orders the modules by name
    format!(
        "ASAP2_VERSION 1 71\n/begin PROJECT P \"\"\n/begin MODULE b \"\"\n{A2ML}\n/end MODULE\n/begin MODULE a \"\"\n{IF_DATA}\n/end MODULE\n/end PROJECT\n"
    )
}

#[test]
fn replay_c14_a2ml_1() {
    let mut a2l = load(&input_1());
    a2l.sort();
    let reloaded = load(&a2l.write_to_string());
    assert_eq!(reloaded, a2l, "load(write(sort(f))) == sort(f)");
}

#[test]
fn replay_c14_a2ml_2() {
    let mut a2l = load(&input_2());
    a2l.sort();
    let reloaded = load(&a2l.write_to_string());
    assert_eq!(reloaded, a2l, "load(write(sort(f))) == sort(f)");
}

#[test]
fn c14_a2ml_1_is_loader_scoping() {
    let original = load(&input_1());
    assert!(!original.project.module[0].if_data[0].ifdata_valid);
    let mut sorted = original.clone();
    sorted.sort();
    // sort() did not change any content (PartialEq ignores the layout information)
    assert_eq!(sorted, original);
    // the written text has the documented order (A2ML first) and the same tokens for both blocks
    let text = sorted.write_to_string();
    assert!(text.find("/begin A2ML").unwrap() < text.find("/begin IF_DATA").unwrap());
    let if_data_text =
        &text[text.find("/begin IF_DATA").unwrap()..text.find("/end IF_DATA").unwrap()];
    assert_eq!(
        tokens(if_data_text),
        tokens(IF_DATA.strip_suffix("/end IF_DATA").unwrap())
    );
    // the reloaded model differs only in the interpretation of the IF_DATA
    let mut reloaded = load(&text);
    assert!(reloaded.project.module[0].if_data[0].ifdata_valid);
    assert_ne!(reloaded, sorted);
    reloaded.project.module[0].if_data = sorted.project.module[0].if_data.clone();
    assert_eq!(reloaded, sorted);
    // no sort() involved: the hand-written text in canonical order loads to a model that differs from the original in
    // exactly the same way
    let hand_ordered = format!(
        "ASAP2_VERSION 1 71\n/begin PROJECT P \"\"\n/begin MODULE M \"\"\n{A2ML}\n{IF_DATA}\n/end MODULE\n/end PROJECT\n"
    );
    let hand = load(&hand_ordered);
    assert_ne!(hand, original);
    assert_eq!(hand, load(&text));
    // stable from here on: sorting / writing / loading again changes nothing any more
    let mut again = load(&text);
    again.sort();
    assert_eq!(again.write_to_string(), text);
    assert_eq!(load(&again.write_to_string()), again);
}

#[test]
fn c14_a2ml_2_is_loader_scoping() {
    let original = load(&input_2());
    // the IF_DATA of module a is interpreted with the A2ML of the preceding module b
    assert_eq!(original.project.module[1].get_name(), "a");
    assert!(original.project.module[1].if_data[0].ifdata_valid);
    let mut sorted = original.clone();
    sorted.sort();
    assert_eq!(sorted.project.module[0].get_name(), "a");
    // pure reordering: the modules are the same
    assert_eq!(sorted.project.module[0], original.project.module[1]);
    assert_eq!(sorted.project.module[1], original.project.module[0]);
    let text = sorted.write_to_string();
    let mut reloaded = load(&text);
    assert!(!reloaded.project.module[0].if_data[0].ifdata_valid);
    assert_ne!(reloaded, sorted);
    reloaded.project.module[0].if_data = sorted.project.module[0].if_data.clone();
    assert_eq!(reloaded, sorted);
    // no sort() involved: the two modules swapped by hand
    let hand_ordered = format!(
        "ASAP2_VERSION 1 71\n/begin PROJECT P \"\"\n/begin MODULE a \"\"\n{IF_DATA}\n/end MODULE\n/begin MODULE b \"\"\n{A2ML}\n/end MODULE\n/end PROJECT\n"
    );
    assert_eq!(load(&hand_ordered), load(&text));
}
