// Replay of the candidate findings of property C01 (save/reload stability) against the public API.
//
// Property: for every accepted text, M0 = load(text), T1 = write(M0):
//   load(T1) succeeds, load(T1) == M0, write(load(T1)) == T1 byte for byte, for any number of cycles.
// Each test asserts exactly that and fails on the unchanged tree if the candidate is real.

use a2lfile::*;

fn wrap(body: &str) -> String {
    format!(
        "ASAP2_VERSION 1 71\n/begin PROJECT p \"\"\n  /begin MODULE m \"\"\n{body}\n  /end MODULE\n/end PROJECT\n"
    )
}

/// the property, for a model that was loaded from text
fn assert_stable(text: &str, strict: bool, cycles: usize) -> A2lFile {
    let (m0, _) = load_from_string(text, None, strict)
        .unwrap_or_else(|e| panic!("input is not accepted: {e}\n{text}"));
    assert_model_stable(&m0, strict, cycles);
    m0
}

/// the property, for any model
fn assert_model_stable(m0: &A2lFile, strict: bool, cycles: usize) {
    let t1 = m0.write_to_string();
    let mut tc = t1.clone();
    for c in 1..=cycles {
        let (mc, _) = load_from_string(&tc, None, strict)
            .unwrap_or_else(|e| panic!("cycle {c}: written text does not load: {e}\n{tc}"));
        assert!(
            mc == *m0,
            "cycle {c}: load(write(M)) != M\nwritten text:\n{tc}"
        );
        let tn = mc.write_to_string();
        assert_eq!(tn, t1, "cycle {c}: written text is not a fixpoint");
        tc = tn;
    }
}

// ---------------------------------------------------------------------------------------------
// C01-1 / C01-8: repaired in the tree (0e2c007, a7b71aa); these two must pass

#[test]
fn c01_1_multiline_block_comment_does_not_grow() {
    let text = wrap(
        "/* a\n b\n c */\n/begin MEASUREMENT m1 \"\" UBYTE NO_COMPU_METHOD 0 0 0 1 /end MEASUREMENT",
    );
    assert_stable(&text, true, 4);
    assert_stable(&text.replace('\n', "\r\n"), true, 4);
}

#[test]
fn c01_8_overflowing_float_is_rejected() {
    let text =
        wrap("/begin MEASUREMENT m1 \"\" UBYTE NO_COMPU_METHOD 0 0 0 1e400 /end MEASUREMENT");
    // either the input is rejected, or it must round trip
    if load_from_string(&text, None, true).is_ok() {
        assert_stable(&text, true, 2);
    }
    if load_from_string(&text, None, false).is_ok() {
        assert_stable(&text, false, 2);
    }
}

// ---------------------------------------------------------------------------------------------
// C01-2: CRLF file with an A2ML block

#[test]
fn c01_2_crlf_a2ml() {
    let lf = wrap(
        "/begin A2ML\n  block \"IF_DATA\" taggedunion {\n    \"V\" int;\n  };\n/end A2ML\n/begin IF_DATA V 1 /end IF_DATA",
    );
    assert_stable(&lf, true, 3);
    let crlf = lf.replace('\n', "\r\n");
    let m0 = assert_stable(&crlf, true, 3);
    // the stray '\r' in front of "/end A2ML" must not survive in a file that is otherwise written with '\n'
    assert!(!m0.write_to_string().contains('\r'));
    // the A2ML of the CRLF file is still understood
    assert!(m0.project.module[0].if_data[0].ifdata_valid);
    // A2ML that ends on the line of "/end A2ML"
    let crlf2 = wrap("/begin A2ML\n  block \"IF_DATA\" taggedunion { \"V\" int; }; /end A2ML")
        .replace('\n', "\r\n");
    assert_stable(&crlf2, true, 3);
}

// ---------------------------------------------------------------------------------------------
// C01-3: two RESERVED entries that are not in ascending position

#[test]
fn c01_3_reserved_not_ascending() {
    let text = wrap("/begin RECORD_LAYOUT r RESERVED 5 BYTE RESERVED 2 WORD /end RECORD_LAYOUT");
    assert_stable(&text, true, 2);
}

// ---------------------------------------------------------------------------------------------
// C01-4: RECORD_LAYOUT items not in ascending position and a line comment between them

#[test]
fn c01_4_reordered_item_lands_behind_line_comment() {
    // written sorted by position: NO_AXIS_PTS_X(1) <comment slot> FNC_VALUES(2) AXIS_PTS_X(3); FNC_VALUES has line offset 0
    let text = wrap(
        "/begin RECORD_LAYOUT r\n AXIS_PTS_X 3 UBYTE INDEX_INCR DIRECT // axis\n NO_AXIS_PTS_X 1 UBYTE FNC_VALUES 2 UBYTE COLUMN_DIR DIRECT\n/end RECORD_LAYOUT",
    );
    for strict in [true, false] {
        let m0 = assert_stable(&text, strict, 3);
        let rl = &m0.project.module[0].record_layout[0];
        assert!(rl.fnc_values.is_some() && rl.axis_pts_x.is_some() && rl.no_axis_pts_x.is_some());
    }
    assert_stable(&text.replace('\n', "\r\n"), true, 3);
}

#[test]
fn c01_4_driver_example() {
    // the example of the driver notes: reload fails with "expected End, got Number" or loses items
    let text = wrap(
        "/begin RECORD_LAYOUT r\n RIP_ADDR_Z 12 ULONG // c\n AXIS_PTS_Y 9 SLONG INDEX_INCR DIRECT // c2\n DIST_OP_4 7 FLOAT16_IEEE AXIS_RESCALE_Z 8 UBYTE 3 INDEX_INCR DIRECT\n/end RECORD_LAYOUT",
    );
    let m0 = assert_stable(&text, true, 3);
    let rl = &m0.project.module[0].record_layout[0];
    assert!(rl.dist_op_4.is_some() && rl.axis_rescale_z.is_some());
}

#[test]
fn c01_4_two_line_comments_in_a_row() {
    // comment slots stay, a second comment with offset 0 must not be appended to a line comment either; and
    // an element that is removed through the API must not make its successor part of a line comment
    let text = wrap(
        "/begin MEASUREMENT m1 \"\" UBYTE NO_COMPU_METHOD 0 0 0 1 // c\n ECU_ADDRESS 0x10 BIT_MASK 0xFF\n/end MEASUREMENT",
    );
    let (mut m0, _) = load_from_string(&text, None, true).unwrap();
    m0.project.module[0].measurement[0].ecu_address = None;
    assert_model_stable(&m0, true, 2);
    assert!(m0.project.module[0].measurement[0].bit_mask.is_some());
}

// ---------------------------------------------------------------------------------------------
// C01-5: comments inside IF_DATA

#[test]
fn c01_5a_comment_behind_begin_if_data() {
    assert_stable(&wrap("/begin IF_DATA /* c */ V 1 /end IF_DATA"), true, 2);
    assert_stable(&wrap("/begin IF_DATA // c\n V 1 /end IF_DATA"), true, 2);
}

#[test]
fn c01_5a2_only_a_comment_in_if_data() {
    assert_stable(&wrap("/begin IF_DATA /* c */ /end IF_DATA"), true, 2);
}

#[test]
fn c01_5b_comment_behind_nested_block() {
    assert_stable(
        &wrap("/begin IF_DATA V /begin A /end A /* c */ x 1 /end IF_DATA"),
        true,
        2,
    );
    assert_stable(
        &wrap("/begin IF_DATA V /begin A 1 /* c */ /begin B /end B /* d */ y /end A /end IF_DATA"),
        true,
        2,
    );
}

#[test]
fn c01_5c_comment_in_front_of_end_if_data_with_a2ml() {
    let text = wrap(
        "/begin A2ML\n  block \"IF_DATA\" taggedunion { \"V\" int; };\n/end A2ML\n/begin IF_DATA V 1 /* c */ /end IF_DATA",
    );
    let m0 = assert_stable(&text, true, 2);
    assert!(m0.project.module[0].if_data[0].ifdata_valid);
}

#[test]
fn c01_5d_comment_between_sibling_blocks_is_accepted() {
    // a rejection of valid input: not demanded by C01 (quantifier: accepted texts), shares the root cause of 5b
    assert_stable(
        &wrap("/begin IF_DATA V /begin A /end A /* c */ /begin B /end B /end IF_DATA"),
        true,
        2,
    );
}

#[test]
fn c01_5e_comment_between_begin_and_a2ml_is_accepted() {
    // a rejection of valid input: not demanded by C01 (quantifier: accepted texts)
    assert_stable(
        &wrap("/begin /* c */ A2ML\n  block \"IF_DATA\" taggedunion { \"V\" int; };\n/end A2ML"),
        true,
        2,
    );
}

// ---------------------------------------------------------------------------------------------
// C01-6: swap_remove

#[test]
fn c01_6_swap_remove() {
    let text = wrap(
        "/begin UNIT u1 \"\" \"x\" DERIVED /end UNIT\n/begin UNIT u2 \"\" \"y\" DERIVED /end UNIT\n/begin UNIT u3 \"\" \"z\" DERIVED /end UNIT",
    );
    let (mut m0, _) = load_from_string(&text, None, true).unwrap();
    m0.project.module[0].unit.swap_remove("u1");
    assert_model_stable(&m0, true, 2);
}

// ---------------------------------------------------------------------------------------------
// C01-7: comments between the elements of an /include file

fn include_case(inc_text: &str, cycles: usize) {
    let dir = tempfile::tempdir().unwrap();
    let main_text = "ASAP2_VERSION 1 71\n/begin PROJECT p \"\"\n  /begin MODULE m \"\"\n    /begin UNIT own \"\" \"o\" DERIVED /end UNIT\n    /include \"inc.a2l\"\n    /* main */\n    /begin GROUP g \"\" ROOT /end GROUP\n  /end MODULE\n/end PROJECT\n";
    std::fs::write(dir.path().join("inc.a2l"), inc_text).unwrap();
    std::fs::write(dir.path().join("main.a2l"), main_text).unwrap();
    let (m0, _) = load(dir.path().join("main.a2l"), None, true).unwrap();
    let t1 = m0.write_to_string();
    assert!(
        t1.contains("/* main */"),
        "comment of the main file is kept"
    );
    let mut tc = t1.clone();
    for c in 1..=cycles {
        let p = dir.path().join(format!("cycle{c}.a2l"));
        std::fs::write(&p, &tc).unwrap();
        let (mc, _) = load(&p, None, true)
            .unwrap_or_else(|e| panic!("cycle {c}: written text does not load: {e}\n{tc}"));
        assert!(mc == m0, "cycle {c}: load(write(M)) != M\n{tc}");
        let tn = mc.write_to_string();
        assert_eq!(tn, t1, "cycle {c}: written text is not a fixpoint");
        tc = tn;
    }
}

#[test]
fn c01_7_comments_in_include_file() {
    include_case(
        "/* c */\n/begin UNIT u1 \"\" \"x\" DERIVED /end UNIT // eol\n/begin UNIT u2 \"\" \"y\" DERIVED /end UNIT\n",
        3,
    );
}

#[test]
fn c01_7_include_file_without_comments() {
    include_case(
        "/begin UNIT u1 \"\" \"x\" DERIVED /end UNIT\n/begin UNIT u2 \"\" \"y\" DERIVED /end UNIT\n",
        3,
    );
}

// ---------------------------------------------------------------------------------------------
// C01-9: float literal with an integral value in IF_DATA that no A2ML describes

#[test]
fn c01_9_integral_float_in_unknown_if_data() {
    assert_stable(
        &wrap("/begin IF_DATA V 1e3 5. 2.5 -0.0 /end IF_DATA"),
        true,
        2,
    );
    // all the integer widths of the fallback parser, and values beyond them
    assert_stable(
        &wrap("/begin IF_DATA V 3e9 -3e9 1.5e10 1e19 -1e19 1e20 1.8446744073709552e19 9.223372036854775808e18 -9.223372036854775808e18 /end IF_DATA"),
        true,
        2,
    );
}
