# one-shot writer of /verif/contracts/U-MOD.vrs (scratch helper, not part of the framework)
SPACES = [
  ("objects", "AnyObject", "object", "obj", [("axis_pts","AxisPts"),("blob","Blob"),("characteristic","Characteristic"),("instance","Instance"),("measurement","Measurement")]),
  ("compu_tabs", "AnyCompuTab", "compu_tab", "tab", [("compu_tab","CompuTab"),("compu_vtab","CompuVtab"),("compu_vtab_range","CompuVtabRange")]),
  ("typedefs", "AnyTypedef", "typedef", "typedef", [("typedef_axis","TypedefAxis"),("typedef_blob","TypedefBlob"),("typedef_characteristic","TypedefCharacteristic"),("typedef_measurement","TypedefMeasurement"),("typedef_structure","TypedefStructure")]),
]
out = []
w = out.append
w('''// Unit U-MOD : a2lfile/src/module.rs, the three name-space lists `Module::objects / compu_tabs / typedefs`
// (callee contracts for C08, C10, C11: the lists these functions build were assumed stubs in U-MRG8, U-CLN-DRV, U-CHK-DRV).
// PROVED here on the real text: the list holds, in list order, one reference per element of the member lists
// (`r@ == ns_<space>(self)`, unconditionally: the functions are total), a name occurs in it iff one of the member lists has it,
// and it is coherent (`wf`: the precondition of `get` / `contains_key` in U-IL) when the member lists are coherent and share no name.
// Callee contracts: `ItemList::extend` (proved in U-IL), `collect::<ItemList<_>>()` = `FromIterator::from_iter` (U-IL:
// `FromIteratorSpecImpl::from_iter_ensures`, body proved in the inherent twin `ItemList::from_iter`), vstd's `Iterator::map` / `collect`.
//@property C11
use vstd::prelude::*;
use std::collections::HashMap;
use std::cmp::Ordering;
use std::ops::{Index, IndexMut};
use vstd::std_specs::hash::*;
use vstd::std_specs::iter::IteratorSpec;

verus! {

//@include prelude/strkeys.rs
//@include prelude/std_specs.rs

// group_iter_axioms: vstd's meaning of the `Map` adapter; axiom_from_iterator_ensures: `yielded(i) == i.remaining()` for iterators
broadcast use {group_strkeys, vstd::std_specs::iter::group_iter_axioms, vstd::std_specs::iter::axiom_from_iterator_ensures};

// contracts of itemlist.rs (proved in unit U-IL, assumed here)
//@import U-IL

// ---------------------------------------------------------------------------------------------------
// projections of the element structs (only `name` matters here) and of Module (the 13 member lists).
// NOT exported: an importing unit brings its own projections of these structs.
''')
for _,_,_,_,members in SPACES:
    for f,t in members:
        w(f'''//@extract a2lfile/src/specification.rs struct {t}
//@ fields name
//@end
impl A2lObjectName for {t} {{
    closed spec fn spec_name(&self) -> Seq<char> {{ self.name@ }}
//@extract a2lfile/src/specification.rs impl A2lObjectName for {t} :: fn get_name
//@end
}}
''')
allfields = sorted(f for _,_,_,_,members in SPACES for f,_ in members)
w(f'''//@extract a2lfile/src/specification.rs struct Module
//@ fields {" ".join(allfields)}
//@end

// ---------------------------------------------------------------------------------------------------
// the three enums of module.rs and their `get_name` (real text, verified against the trait contract of U-IL: the name of a
// wrapped reference is the name of the element). NOT exported either: U-CHK11, U-MRG8 and U-CLN-DRV already extract them; an
// importing unit must have them with the same `spec_name` (the match below), otherwise the exported lemmas do not re-verify.
@@ENUMS@@
//@export-begin
// ---------------------------------------------------------------------------------------------------
// shared vocabulary (same text as in U-MRG8: `shas`, `disjoint_names`, `distinct_names`, `ns_<space>`, `ns_unique_<space>`;
// same text as in U-CHK-DRV / U-CLN-DRV: `<kind>_exists`, `<kind>_unique_at`). Everything that names a field of `Module` is
// `pub closed` (body visible in the whole single-module unit): an importing unit may project `Module` with its `pub(crate) name`
// field, which makes the struct opaque for `pub open` bodies and for the contracts of `pub` functions.)

pub open spec fn shas<T: A2lObjectName>(s: Seq<T>, n: Seq<char>) -> bool {{
    exists|i: int| 0 <= i < s.len() && (#[trigger] s[i]).spec_name() == n
}}

pub open spec fn disjoint_names<S: A2lObjectName, T: A2lObjectName>(x: Seq<S>, y: Seq<T>) -> bool {{
    forall|i: int, j: int| 0 <= i < x.len() && 0 <= j < y.len() ==> (#[trigger] x[i]).spec_name() != (#[trigger] y[j]).spec_name()
}}

pub open spec fn distinct_names<T: A2lObjectName>(s: Seq<T>) -> bool {{
    forall|i: int, j: int| 0 <= i < s.len() && 0 <= j < s.len() && i != j ==> (#[trigger] s[i]).spec_name() != (#[trigger] s[j]).spec_name()
}}

pub proof fn lemma_wf_distinct_names<T: A2lObjectName>(l: &ItemList<T>)
    requires
        l.wf(),
    ensures
        distinct_names(l@),
{{
    assert forall|i: int, j: int| 0 <= i < l@.len() && 0 <= j < l@.len() && i != j implies (#[trigger] l@[i]).spec_name() != (#[trigger] l@[j]).spec_name() by {{
        l.lemma_wf_lookup(l@[i].spec_name());
    }}
}}

pub proof fn lemma_shas_add<T: A2lObjectName>(a: Seq<T>, b: Seq<T>, n: Seq<char>)
    ensures
        shas(a + b, n) <==> shas(a, n) || shas(b, n),
{{
    let c = a + b;
    if shas(a, n) {{
        let i = choose|i: int| 0 <= i < a.len() && (#[trigger] a[i]).spec_name() == n;
        assert(c[i].spec_name() == n);
    }}
    if shas(b, n) {{
        let i = choose|i: int| 0 <= i < b.len() && (#[trigger] b[i]).spec_name() == n;
        assert(c[a.len() + i].spec_name() == n);
    }}
    if shas(c, n) {{
        let i = choose|i: int| 0 <= i < c.len() && (#[trigger] c[i]).spec_name() == n;
        if i < a.len() {{ assert(a[i].spec_name() == n); }} else {{ assert(b[i - a.len()].spec_name() == n); }}
    }}
}}

/// wrapping every element into a value of the same name keeps the set of names
pub proof fn lemma_shas_map<S: A2lObjectName, U: A2lObjectName>(l: Seq<S>, f: spec_fn(S) -> U, n: Seq<char>)
    requires
        forall|x: S| (#[trigger] f(x)).spec_name() == x.spec_name(),
    ensures
        shas(l.map_values(f), n) <==> shas(l, n),
{{
    let c = l.map_values(f);
    if shas(l, n) {{
        let i = choose|i: int| 0 <= i < l.len() && (#[trigger] l[i]).spec_name() == n;
        assert(c[i].spec_name() == n);
    }}
    if shas(c, n) {{
        let i = choose|i: int| 0 <= i < c.len() && (#[trigger] c[i]).spec_name() == n;
        assert(c[i] == f(l[i]));
        assert(l[i].spec_name() == n);
    }}
}}

/// two lists that never hold the same name have disjoint names
pub proof fn lemma_disjoint_from_has<S: A2lObjectName, T: A2lObjectName>(x: &ItemList<S>, y: &ItemList<T>)
    requires
        forall|n: Seq<char>| !(#[trigger] x.has(n) && y.has(n)),
    ensures
        disjoint_names(x@, y@),
{{
    assert forall|i: int, j: int| 0 <= i < x@.len() && 0 <= j < y@.len() implies (#[trigger] x@[i]).spec_name() != (#[trigger] y@[j]).spec_name() by {{
        let n = x@[i].spec_name();
        if y@[j].spec_name() == n {{
            assert(x.has(n));
            assert(y.has(n));
        }}
    }}
}}
''')
for fn, en, kind, uq, members in SPACES:
    nm = len(members)
    w(f"// ---------------- name space `{fn}` ({', '.join(t for _,t in members)}) ----------------\n")
    w(f"/// the name space as one sequence (the view of what `Module::{fn}()` builds)")
    w(f"pub closed spec fn ns_{fn}<'a>(m: &'a Module) -> Seq<{en}<'a>> {{")
    w("    " + " + ".join(f"m.{f}@.map_values(|x: {t}| {en}::{t}(&x))" for f,t in members))
    w("}\n")
    w("/// every member list is coherent")
    w(f"pub closed spec fn ns_wf_{fn}(m: &Module) -> bool {{")
    w("    " + " && ".join(f"m.{f}.wf()" for f,_ in members))
    w("}\n")
    w("/// names are unique in the whole name space: every list coherent, lists pairwise disjoint")
    w(f"pub closed spec fn ns_unique_{fn}(m: &Module) -> bool {{")
    for f,t in members:
        w(f"    &&& m.{f}.wf()")
    for i in range(nm):
        for j in range(i+1, nm):
            w(f"    &&& disjoint_names(m.{members[i][0]}@, m.{members[j][0]}@)")
    w("}\n")
    w(f"pub closed spec fn {kind}_exists(m: &Module, n: Seq<char>) -> bool {{")
    w("    " + " || ".join(f"m.{f}.has(n)" for f,_ in members))
    w("}\n")
    w("/// a name denotes at most one element of the name space (ASAM MCD-2 MC: names are unique within the name space of a MODULE)")
    w(f"pub closed spec fn {uq}_unique_at(m: &Module, n: Seq<char>) -> bool {{")
    for i in range(nm-1):
        rest = " || ".join(f"m.{members[j][0]}.has(n)" for j in range(i+1, nm))
        if nm - i - 1 > 1: rest = "(" + rest + ")"
        w(f"    &&& (m.{members[i][0]}.has(n) ==> !{rest})")
    w("}\n")
    w(f"/// the `has`-form of uniqueness (U-CHK-DRV, U-CLN-DRV) implies the positional form (U-MRG8) under which `{fn}()` is coherent")
    w(f"pub proof fn lemma_ns_unique_{fn}(m: &Module)\n    requires")
    w(f"        ns_wf_{fn}(m),")
    w(f"        forall|n: Seq<char>| #[trigger] {uq}_unique_at(m, n),\n    ensures\n        ns_unique_{fn}(m),\n{{")
    for i in range(nm):
        for j in range(i+1, nm):
            a, b = members[i][0], members[j][0]
            w(f"    assert forall|n: Seq<char>| !(#[trigger] m.{a}.has(n) && m.{b}.has(n)) by {{ assert({uq}_unique_at(m, n)); }}")
            w(f"    lemma_disjoint_from_has(&m.{a}, &m.{b});")
    w("}\n")
    w(f"/// a name occurs in the name-space sequence iff one of the member lists has it")
    w(f"pub proof fn lemma_ns_{fn}_has(m: &Module)\n    ensures\n        forall|n: Seq<char>| #![trigger shas(ns_{fn}(m), n)] #![trigger {kind}_exists(m, n)] shas(ns_{fn}(m), n) <==> {kind}_exists(m, n),\n{{")
    w(f"    assert forall|n: Seq<char>| #![trigger shas(ns_{fn}(m), n)] #![trigger {kind}_exists(m, n)] shas(ns_{fn}(m), n) <==> {kind}_exists(m, n) by {{")
    for k,(f,t) in enumerate(members):
        w(f"        let s{k} = m.{f}@.map_values(|x: {t}| {en}::{t}(&x));")
        w(f"        lemma_shas_map(m.{f}@, |x: {t}| {en}::{t}(&x), n);")
    acc = "s0"
    for k in range(1, nm):
        w(f"        lemma_shas_add({acc}, s{k}, n);")
        acc = f"({acc} + s{k})" if k < nm-1 else acc
        if k < nm - 1:
            pass
    w("    }\n}\n")
    w("impl Module {")
    w(f"// R19: an enum constructor passed as a function item (`.map({en}::X)`) is eta-expanded into a closure with a PROVED contract")
    w(f"// (`r == {en}::X(x)`); Verus rejects function items used as values. Count `*`: every occurrence, so that a dropped or")
    w(f"// duplicated member list is seen by the proof (postcondition) instead of losing the anchor.")
    w(f"// TOTAL (no precondition, as the code): the view is always the concatenation; coherence needs unique names in the name space.")
    w(f"//@extract a2lfile/src/module.rs impl Module :: fn {fn}")
    w(f'//@ rewrite-re R19 * "\\\\.map\\\\({en}::(\\\\w+)\\\\)" => ".map(|x: &\\\\1| -> (r: {en}) ensures r == {en}::\\\\1(x) {{ {en}::\\\\1(x) }})"')
    w("//@ ret r\n//@ spec\n        ensures")
    w(f"            r@ =~= ns_{fn}(self),\n            ns_unique_{fn}(self) ==> r.wf(),")
    w(f"            // (antecedent = the previous clause; postconditions are proved one by one, the extensional equality is not carried over)")
    w(f"            r@ == ns_{fn}(self) ==> forall|n: Seq<char>| #[trigger] r.has(n) <==> {kind}_exists(self, n),")
    w("//@ body-start\n        proof {")
    w(f"            if ns_unique_{fn}(self) {{")
    for f,_ in members:
        w(f"                lemma_wf_distinct_names(&self.{f});")
    w("            }")
    w(f"            lemma_ns_{fn}_has(self);")
    w("        }\n//@end\n}\n")
w('''//@export-end
} // verus!

fn main() {}
''')
enums=[]
for fn, en, kind, uq, members in SPACES:
    enums.append(f"//@extract a2lfile/src/module.rs enum {en}\n//@end\n")
    enums.append(f"impl A2lObjectName for {en}<'_> {{\n    open spec fn spec_name(&self) -> Seq<char> {{\n        match self {{")
    for f,t in members:
        enums.append(f"            {en}::{t}(x) => x.spec_name(),")
    enums.append(f"        }}\n    }}\n\n//@extract a2lfile/src/module.rs impl A2lObjectName for {en}<'_> :: fn get_name\n//@end\n}}\n")
open('/verif/contracts/U-MOD.vrs','w').write("\n".join(out).replace("@@ENUMS@@","\n".join(enums)))
