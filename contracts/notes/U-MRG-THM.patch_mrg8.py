#!/usr/bin/env python3
# additive strengthening of U-MRG8.vrs for T4c FUNCTION/GROUP (usage: patch_mrg8.py <path to U-MRG8.vrs>)
import sys
p = sys.argv[1]
s = open(p).read()

def rep(old, new, cnt=1):
    global s
    assert s.count(old) == cnt, (s.count(old), old[:80])
    s = s.replace(old, new)

FN = [("sub_function", "identifier_list"), ("in_measurement", "identifier_list"), ("loc_measurement", "identifier_list"), ("out_measurement", "identifier_list"), ("def_characteristic", "identifier_list"), ("ref_characteristic", "identifier_list")]
GR = [("sub_group", "identifier_list"), ("function_list", "name_list"), ("ref_characteristic", "identifier_list"), ("ref_measurement", "identifier_list")]

def elem_same(lists):
    out = ["    &&& x.spec_name() == y.spec_name()"]
    for f, l in lists:
        out.append("    &&& x.%s.is_some() == y.%s.is_some()" % (f, f))
        out.append("    &&& (x.%s.is_some() ==> x.%s.unwrap().%s@ == y.%s.unwrap().%s@)" % (f, f, l, f, l))
    return "\n".join(out)

# E1/E2: vocabulary + names_frame
rep("""pub open spec fn names_frame(a: &Module, b: &Module) -> bool {
    names_frame0(a, b) && vc_frame(a, b)
}
""", """/// two FUNCTIONs with the same name and the same members (every member list compared by its view; None and Some(empty) differ)
pub closed spec fn fn_elem_same(x: Function, y: Function) -> bool {
%s
}

/// two GROUPs with the same name and the same members
pub closed spec fn gr_elem_same(x: Group, y: Group) -> bool {
%s
}

/// the FUNCTION list af / GROUP list ag and the lists bf / bg hold, position by position, elements with the same name and the same
/// members. Frame of every `rename_*` function except `rename_objects` (only object references are members of FUNCTIONs and GROUPs),
/// and of `rename_objects` when its table is empty; C08 "merging an identical copy changes nothing" for FUNCTION / GROUP rests on it.
#[verifier::opaque]
pub closed spec fn fg_same(af: Seq<Function>, ag: Seq<Group>, bf: Seq<Function>, bg: Seq<Group>) -> bool {
    &&& af.len() == bf.len()
    &&& forall|i: int| #![trigger af[i]] #![trigger bf[i]] 0 <= i < af.len() ==> fn_elem_same(af[i], bf[i])
    &&& ag.len() == bg.len()
    &&& forall|i: int| #![trigger ag[i]] #![trigger bg[i]] 0 <= i < ag.len() ==> gr_elem_same(ag[i], bg[i])
}

pub proof fn lemma_fg_same_refl(f: Seq<Function>, g: Seq<Group>)
    ensures
        fg_same(f, g, f, g),
{
    reveal(fg_same);
}

pub proof fn lemma_fg_same_trans(f1: Seq<Function>, g1: Seq<Group>, f2: Seq<Function>, g2: Seq<Group>, f3: Seq<Function>, g3: Seq<Group>)
    requires
        fg_same(f1, g1, f2, g2),
        fg_same(f2, g2, f3, g3),
    ensures
        fg_same(f1, g1, f3, g3),
{
    reveal(fg_same);
    assert forall|i: int| #![trigger f1[i]] #![trigger f3[i]] 0 <= i < f1.len() implies fn_elem_same(f1[i], f3[i]) by {
        assert(fn_elem_same(f1[i], f2[i]) && fn_elem_same(f2[i], f3[i]));
    }
    assert forall|i: int| #![trigger g1[i]] #![trigger g3[i]] 0 <= i < g1.len() implies gr_elem_same(g1[i], g3[i]) by {
        assert(gr_elem_same(g1[i], g2[i]) && gr_elem_same(g2[i], g3[i]));
    }
}

/// a rename table without entries
pub open spec fn table_empty(t: Map<String, String>) -> bool {
    forall|k: String| !t.contains_key(k)
}

pub open spec fn names_frame(a: &Module, b: &Module) -> bool {
    names_frame0(a, b) && vc_frame(a, b) && fg_same(a.function@, a.group@, b.function@, b.group@)
}
""" % (elem_same(FN), elem_same(GR)))

# E3: rename_objects stub
rep("""    ensures
        names_frame0(old(merge_module), final(merge_module)),
        redirects_obj(final(merge_module)),
""", """    ensures
        names_frame0(old(merge_module), final(merge_module)),
        redirects_obj(final(merge_module)),
        // renaming with an empty table changes no member of a FUNCTION / GROUP (U-MRG9: every member becomes rn(table, member))
        table_empty(rename_table@) ==> fg_same(old(merge_module).function@, old(merge_module).group@, final(merge_module).function@, final(merge_module).group@),
""")

# E4: objects_all_twins + lemma_no_rename
rep("""pub open spec fn orig_frame_merge_objects(a: &Module, b: &Module) -> bool {""", """/// every object of b is judged identical to a same-name object of a (then no object is renamed)
pub open spec fn objects_all_twins(a: &Module, b: &Module) -> bool {
    forall|p: int| 0 <= p < ns_objects(b).len() ==> act_skip(ns_objects(a), #[trigger] ns_objects(b)[p])
}

/// if every element is judged identical the rename table has no entry
pub proof fn lemma_no_rename<U: A2lObjectName + PartialEq>(ns_a: Seq<U>, ns_b: Seq<U>, action: Map<String, bool>, rename: Map<String, String>)
    requires
        actions_ok(ns_a, ns_b, ns_b.len() as int, action, rename),
        forall|p: int| 0 <= p < ns_b.len() ==> act_skip(ns_a, #[trigger] ns_b[p]),
    ensures
        table_empty(rename),
{
    assert forall|k: String| !rename.contains_key(k) by {
        if rename.contains_key(k) {
            let p = spos(ns_b, k@);
            assert(shas(ns_b, k@));
            assert(0 <= p < ns_b.len());
            assert(act_rename(ns_a, ns_b[p]));
            assert(act_skip(ns_a, ns_b[p]));
        }
    }
}

pub open spec fn orig_frame_merge_objects(a: &Module, b: &Module) -> bool {""")

# E5: merge_objects
rep("""        redirected(k_obj(), final(merge_module).function@),
        redirected(k_obj(), final(merge_module).group@),
        redirected(k_obj(), final(merge_module).frame@),
        redirected(k_obj(), final(merge_module).transformer@),
//@ before 1 rename_objects(merge_module, &object_rename_table);
    proof {
""", """        redirected(k_obj(), final(merge_module).function@),
        redirected(k_obj(), final(merge_module).group@),
        redirected(k_obj(), final(merge_module).frame@),
        redirected(k_obj(), final(merge_module).transformer@),
        // if no object is renamed the members of B's FUNCTIONs and GROUPs are untouched
        objects_all_twins(old(orig_module), old(merge_module)) ==> fg_same(old(merge_module).function@, old(merge_module).group@, final(merge_module).function@, final(merge_module).group@),
//@ before 1 rename_objects(merge_module, &object_rename_table);
    proof {
        if objects_all_twins(old(orig_module), old(merge_module)) {
            lemma_no_rename(ns_objects(old(orig_module)), ns_objects(old(merge_module)), object_merge_action@, object_rename_table@);
        }
""")
rep("""    let ghost mm1 = *merge_module; // the merge module as the typedef decision sees it
//@ before-loop 1
""", """    let ghost mm1 = *merge_module; // the merge module as the typedef decision sees it
//@ before-loop 1
    proof {
        if objects_all_twins(old(orig_module), old(merge_module)) {
            lemma_fg_same_trans(old(merge_module).function@, old(merge_module).group@, mm1.function@, mm1.group@, merge_module.function@, merge_module.group@);
        }
    }
""")

# E6: mstep
rep("""    &&& (singles_wf(m) ==> singles_wf(m2))
    &&& (stage < 8 ==> vc_frame(m, m2))
""", """    &&& (singles_wf(m) ==> singles_wf(m2))
    &&& (stage < 8 ==> vc_frame(m, m2))
    &&& (stage < 8 ==> fg_same(m.function@, m.group@, m2.function@, m2.group@))
""")
for nm, fld in (("a2ml", "a2ml"), ("if_data", "if_data"), ("mod_common", "mod_common")):
    rep("""        *m2 == (Module { %s: m2.%s, ..*m }),
    ensures
        mstep(m, m2, %d),""" % (fld, fld, {"a2ml": 0, "if_data": 2, "mod_common": 7}[nm]) + """
        rstart(mseg, m2, %d),
{
    reveal(mstep);""" % ({"a2ml": 1, "if_data": 3, "mod_common": 8}[nm]), """        *m2 == (Module { %s: m2.%s, ..*m }),
    ensures
        mstep(m, m2, %d),""" % (fld, fld, {"a2ml": 0, "if_data": 2, "mod_common": 7}[nm]) + """
        rstart(mseg, m2, %d),
{
    lemma_fg_same_refl(m.function@, m.group@);
    reveal(mstep);""" % ({"a2ml": 1, "if_data": 3, "mod_common": 8}[nm]))

# E7: mprog
rep("""    &&& (stage <= 8 ==> vc_frame(b0, m))
""", """    &&& (stage <= 8 ==> vc_frame(b0, m))
    &&& (stage <= 8 ==> fg_same(b0.function@, b0.group@, m.function@, m.group@))
""")
rep("""        mprog(b0, m2, stage + 1),
{
    reveal(mprog);
    reveal(mstep);
}""", """        mprog(b0, m2, stage + 1),
{
    reveal(mprog);
    reveal(mstep);
    if stage < 8 {
        lemma_fg_same_trans(b0.function@, b0.group@, m.function@, m.group@, m2.function@, m2.group@);
    }
}""")
rep("""        stage <= 13 ==> m.user_rights@ == b0.user_rights@,
        stage <= 7 ==> m.mod_common.is_some() == b0.mod_common.is_some(),
        stage <= 14 ==> m.variant_coding.is_some() == b0.variant_coding.is_some(),
        stage <= 2 ==> m.if_data@.len() == b0.if_data@.len(),
        stage <= 1 ==> m.mod_par == b0.mod_par,
        stage <= 0 ==> m.a2ml == b0.a2ml,
{
    reveal(mprog);
}""", """        stage <= 13 ==> m.user_rights@ == b0.user_rights@,
        stage <= 7 ==> m.mod_common.is_some() == b0.mod_common.is_some(),
        stage <= 14 ==> m.variant_coding.is_some() == b0.variant_coding.is_some(),
        stage <= 2 ==> m.if_data@.len() == b0.if_data@.len(),
        stage <= 1 ==> m.mod_par == b0.mod_par,
        stage <= 0 ==> m.a2ml == b0.a2ml,
        stage <= 8 ==> fg_same(b0.function@, b0.group@, m.function@, m.group@),
{
    reveal(mprog);
}""")
rep("""        assert(mprog(&m0, &m0, 0)) by { reveal(mprog); }""", """        assert(mprog(&m0, &m0, 0)) by { reveal(mprog); lemma_fg_same_refl(m0.function@, m0.group@); }""")

# E8: modules_merged
rep("""/// C08 for the whole driver: the per-kind contracts assembled (a = A before, b = B before, r = A after)
pub open spec fn modules_merged(a: &Module, b: &Module, r: &Module) -> bool {""", """/// FUNCTION / GROUP: b1f / b1g are B's lists as they were judged, bc is the merge module as merge_objects received it. If every object
/// of bc is judged identical to one of A (no object is renamed), b1f / b1g have the members of B's own lists.
pub open spec fn fg_link_at(a: &Module, b: &Module, r: &Module, bc: &Module, b1f: Seq<Function>, b1g: Seq<Group>) -> bool {
    &&& same_names(b.axis_pts@, bc.axis_pts@)
    &&& same_names(b.blob@, bc.blob@)
    &&& same_names(b.characteristic@, bc.characteristic@)
    &&& same_names(b.instance@, bc.instance@)
    &&& same_names(b.measurement@, bc.measurement@)
    &&& function_merged(a.function@, b1f, r.function@)
    &&& group_merged(a.group@, b1g, r.group@)
    &&& (objects_all_twins(a, bc) ==> fg_same(b.function@, b.group@, b1f, b1g))
}

pub open spec fn fg_twin_link(a: &Module, b: &Module, r: &Module) -> bool {
    exists|bc: Module, b1f: Seq<Function>, b1g: Seq<Group>| #[trigger] fg_link_at(a, b, r, &bc, b1f, b1g)
}

/// introduction of `fg_twin_link` at the end of merge_modules: ONE lemma call whose PRECONDITIONS are the facts the driver calls must have
/// established (oi: A as merge_objects received it, bc / bf / bg: B as merge_objects / merge_function / merge_group received it), so that a
/// step of merge_modules that does not establish them fails one contract-level obligation
pub proof fn lemma_fg_link_final(a: &Module, b: &Module, r: &Module, oi: &Module, bc: &Module, bf: &Module, bg: &Module)
    requires
        same_names(b.axis_pts@, bc.axis_pts@),
        same_names(b.blob@, bc.blob@),
        same_names(b.characteristic@, bc.characteristic@),
        same_names(b.instance@, bc.instance@),
        same_names(b.measurement@, bc.measurement@),
        function_merged(a.function@, bf.function@, r.function@),
        group_merged(a.group@, bg.group@, r.group@),
        ns_objects(oi) == ns_objects(a),
        fg_same(b.function@, b.group@, bc.function@, bc.group@),
        objects_all_twins(oi, bc) ==> fg_same(bc.function@, bc.group@, bf.function@, bf.group@),
        bg.group@ == bf.group@,
    ensures
        fg_twin_link(a, b, r),
{
    if objects_all_twins(a, bc) {
        assert(objects_all_twins(oi, bc));
        lemma_fg_same_trans(b.function@, b.group@, bc.function@, bc.group@, bf.function@, bf.group@);
    }
    assert(fg_link_at(a, b, r, bc, bf.function@, bg.group@));
}

/// C08 for the whole driver: the per-kind contracts assembled (a = A before, b = B before, r = A after)
pub open spec fn modules_merged(a: &Module, b: &Module, r: &Module) -> bool {""")
rep("""    &&& function_merged_upto(a.function@, b.function@, r.function@)
    &&& group_merged_upto(a.group@, b.group@, r.group@)
    // singletons and unnamed lists""", """    &&& function_merged_upto(a.function@, b.function@, r.function@)
    &&& group_merged_upto(a.group@, b.group@, r.group@)
    &&& fg_twin_link(a, b, r)
    // singletons and unnamed lists""")
rep("""        assert(group_merged(o0.group@, mi_merge_group.group@, orig_module.group@));
        assert(group_merged_upto(o0.group@, m0.group@, orig_module.group@));
""", """        assert(group_merged(o0.group@, mi_merge_group.group@, orig_module.group@));
        assert(group_merged_upto(o0.group@, m0.group@, orig_module.group@));
        lemma_fg_link_final(&o0, &m0, orig_module, &oi_merge_objects, &mi_merge_objects, &mi_merge_function, &mi_merge_group);
""")

# E9: drivers that do not call a rename_* function need reflexivity
rep("""        names_frame(old(merge_module), &Module { frame: old(merge_module).frame, ..*final(merge_module) }),
//@ before-loop 1
""", """        names_frame(old(merge_module), &Module { frame: old(merge_module).frame, ..*final(merge_module) }),
//@ before-loop 1
    proof { lemma_fg_same_refl(old(merge_module).function@, old(merge_module).group@); }
""")
rep("""        old(orig_module).mod_par.is_some() && old(merge_module).mod_par.is_some() ==> redirects_mseg(final(merge_module)),
        singles_wf(final(merge_module)),
//@end""", """        old(orig_module).mod_par.is_some() && old(merge_module).mod_par.is_some() ==> redirects_mseg(final(merge_module)),
        singles_wf(final(merge_module)),
//@ body-start
    proof { lemma_fg_same_refl(old(merge_module).function@, old(merge_module).group@); }
//@end""")
open(p, "w").write(s)
print("patched", p)
