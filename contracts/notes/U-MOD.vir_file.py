#!/usr/bin/env python3
"""Read the shape of a vstd contract without vstd sources: /opt/veriftools/verus/vstd.vir is vstd's serialized AST with source
spans; the printable strings in it, grouped by the source line of the enclosing span, give the identifiers of every spec clause
in source order.  usage: python3 U-MOD.vir_file.py std_specs/iter.rs [first_line last_line]
(how `map_postcondition`, `Iterator::collect`, `FromIterator::from_iter`, `HashMap::keys`, `VerusForLoopWrapper` were read)"""
import re, subprocess, sys
pat = sys.argv[1]
lo = int(sys.argv[2]) if len(sys.argv) > 2 else 0
hi = int(sys.argv[3]) if len(sys.argv) > 3 else 10**9
txt = subprocess.run(["strings", "-n", "3", "/opt/veriftools/verus/vstd.vir"], capture_output=True, text=True, errors="replace").stdout
span = re.compile(r'^(\S+\.rs):(\d+):(\d+): (\d+):(\d+) \(#\d+\)')
bylines, curfile, curline, prev = {}, None, None, None
for l in txt.split("\n"):
    m = span.match(l)
    if m:
        curfile, curline, prev = m.group(1), int(m.group(2)), None
        continue
    if curfile and curfile.endswith(pat) and l != prev:
        bylines.setdefault(curline, []).append(l)
    prev = l
for k in sorted(bylines):
    if lo <= k <= hi:
        s = " ".join(bylines[k]).replace("Self%4 Self% ", "").replace("Self% ", "")
        print("[%d] %s" % (k, s[:1500]))
