#!/usr/bin/env python3
"""Derive the variant of contracts/U-MRG9.vrs that fits the UNPATCHED merge.rs of /repo.

U-MRG9.vrs annotates the loops of merge.rs with the fix of notes/U-MRG9.fix.diff applied.  The fix adds loops
(the forgotten reference sites), so on the unpatched tree some `//@ loop N` anchors do not exist.  This script
drops the annotation blocks of the added loops and renumbers the remaining ones; contracts (requires/ensures),
projections and `ren` relations are NOT touched.  Usage:

    python3 contracts/notes/U-MRG9.derive_unpatched.py > contracts/notes/U-MRG9.unpatched.vrs
    python3 contracts/notes/U-MRG9.derive_unpatched.py --run [verus args]     # extract from /repo and run Verus
"""
import os, re, subprocess, sys

ROOT = os.path.dirname(os.path.dirname(os.path.dirname(os.path.abspath(__file__))))

# function -> {patched loop number: unpatched loop number or None (loop added by the fix)}
MAP = {
    "rename_unit_refs": {1: 1, 2: None},
    "rename_compu_method_refs": {1: 1, 2: 2, 3: 3, 4: 4, 5: 5, 6: 6, 7: 7, 8: 8, 9: None, 10: None},
    "rename_typedef_refs": {1: 1, 2: 2, 3: None},
    "rename_objects": {1: 1, 2: 2, 3: 3, 4: None, 5: None, 6: None, 7: None, 8: 4, 9: 5, 10: 6, 11: 7, 12: 8,
                       13: 9, 14: 10, 15: None},
}
# the unpatched rename_objects has an 11th loop (`for var_characteristic in &mut variant_coding.var_characteristic`,
# which renames criterion_name_list with the object table); it gets the standard recipe
EXTRA = {
    "rename_objects": """//@ itername 11 it
//@ before-loop 11
    proof { n = variant_coding.var_characteristic@.len(); k = 0; }
//@ loop 11
        invariant
            t == tabs_obj(rename_table@),
            linv(k, n, it.index@ as int, it.snapshot@.remaining(), it.history@, it.iter.remaining(), old(merge_module).variant_coding.unwrap().var_characteristic@),
            lren(it.index@ as int, it.snapshot@.remaining(), t),
//@ loop-end 11
        proof { k = k + 1; }
""",
}
LOOPKW = ("itername", "before-loop", "loop", "loop-end", "loop-start", "after-loop")


def derive(text):
    out = []
    cur = None
    skipping = False
    for line in text.split("\n"):
        s = line.strip()
        m = re.match(r"//@extract \S+ fn (\w+)$", s)
        if m:
            cur = m.group(1) if m.group(1) in MAP else None
            skipping = False
        if s == "//@end":
            if cur and cur in EXTRA:
                out.extend(EXTRA[cur].rstrip("\n").split("\n"))
            cur = None
            skipping = False
            out.append(line)
            continue
        if cur and s.startswith("//@ "):
            parts = s[4:].split()
            skipping = False
            if parts[0] in LOOPKW:
                new = MAP[cur][int(parts[1])]
                if new is None:
                    skipping = True
                    continue
                parts[1] = str(new)
                out.append("//@ " + " ".join(parts))
                continue
        if skipping:
            continue
        out.append(line)
    return "\n".join(out)


def main():
    with open(os.path.join(ROOT, "contracts", "U-MRG9.vrs"), encoding="utf-8") as f:
        text = derive(f.read())
    if "--run" not in sys.argv:
        sys.stdout.write(text)
        return
    args = [a for a in sys.argv[1:] if a != "--run"]
    repo = "/repo"
    if "--repo" in args:
        k = args.index("--repo")
        repo = args[k + 1]
        del args[k:k + 2]
    sys.path.insert(0, ROOT)
    from vf import extract
    d = os.environ.get("VF_DEV_DIR", "/tmp/vfdev-mrg9-unpatched")
    os.makedirs(d, exist_ok=True)
    tp = os.path.join(ROOT, "contracts", "notes", "U-MRG9.unpatched.vrs")
    with open(tp, "w", encoding="utf-8") as f:
        f.write(text)
    u = extract.process(tp, repo, vacuity=False, verif_root=ROOT)
    path = os.path.join(d, "U_MRG9_unpatched.rs")
    with open(path, "w") as f:
        f.write(u.text)
    print("wrote", path)
    r = subprocess.run(["verus", path, "--multiple-errors", "20"] + args, cwd=d, capture_output=True, text=True)
    print(r.stdout[-3000:])
    print(r.stderr[-30000:])


if __name__ == "__main__":
    main()
