#!/usr/bin/env python3
"""by-hand vacuity check: insert `assert(false);` as first statement of every proof fn of the template part of the generated file,
run verus with many errors, list lemmas whose inserted assertion is NOT reported."""
import re, subprocess, sys
src = sys.argv[1]
text = open(src).read()
start = text.index("// 1. The site table as a RELATION TRANSFORMER")
out = text[:start]
body = text[start:]
res = []
names = []
pos = 0
for m in re.finditer(r"proof fn (\w+)", body):
    # find end of param list
    i = body.index("(", m.end())
    d = 0
    while True:
        c = body[i]
        if c == "(": d += 1
        elif c == ")":
            d -= 1
            if d == 0: break
        i += 1
    j = i + 1
    while body[j] in " \n": j += 1
    if body[j] == "{":
        bpos = j
    elif body[j] == ";":
        continue
    else:
        mm = re.compile(r"^\s*(\{|;)\s*$", re.M).search(body, j)
        if mm.group(1) == ";":
            continue
        bpos = mm.start(1)
    names.append((m.group(1), bpos))
# impl-qualified unique ids
acc = []
last = 0
ids = []
for n, (name, bpos) in enumerate(names):
    acc.append(body[last:bpos + 1])
    ident = "VAC%d_%s" % (n, name)
    ids.append(ident)
    acc.append(" assert(false); /*%s*/ " % ident)
    last = bpos + 1
acc.append(body[last:])
dst = src.replace(".rs", "_vac.rs")
open(dst, "w").write(out + "".join(acc))
p = subprocess.run(["verus", dst, "--multiple-errors", "2000", "--triggers-mode", "silent"], capture_output=True, text=True)
log = p.stdout + p.stderr
failed = set(re.findall(r"/\*(VAC\d+_\w+)\*/", log))
# only count those reported in an "assertion failed" context
missing = [i for i in ids if i not in failed]
print("%d proof fns with body, assert(false) reported failing in %d" % (len(ids), len(ids) - len(missing)))
print("NOT failing:", missing)
print(log.strip().split("\n")[-1])
