// replay of the contract-level counterexamples of U-MRG-THM on the real crate
use a2lfile::*;

fn load(body: &str) -> A2lFile {
    let text = format!(
        "ASAP2_VERSION 1 71\n/begin PROJECT p \"\"\n/begin MODULE m \"\"\n{}\n/end MODULE\n/end PROJECT\n",
        body
    );
    let (f, _) = load_from_string(&text, None, false).unwrap();
    f
}

const MEAS: &str = r#"
/begin MEASUREMENT m1 "" UBYTE NO_COMPU_METHOD 0 0 0 255 /end MEASUREMENT
/begin MEASUREMENT m2 "" UBYTE NO_COMPU_METHOD 0 0 0 255 /end MEASUREMENT
/begin CHARACTERISTIC c1 "" VALUE 0x1000 rl 0 NO_COMPU_METHOD 0 255 /end CHARACTERISTIC
/begin RECORD_LAYOUT rl FNC_VALUES 1 UBYTE ROW_DIR DIRECT /end RECORD_LAYOUT
/begin FUNCTION f1 ""
  /begin SUB_FUNCTION f2 /end SUB_FUNCTION
  /begin IN_MEASUREMENT m1 /end IN_MEASUREMENT
  /begin LOC_MEASUREMENT m2 /end LOC_MEASUREMENT
  /begin OUT_MEASUREMENT m1 m2 /end OUT_MEASUREMENT
  /begin DEF_CHARACTERISTIC c1 /end DEF_CHARACTERISTIC
  /begin REF_CHARACTERISTIC c1 /end REF_CHARACTERISTIC
/end FUNCTION
/begin FUNCTION f2 "" /end FUNCTION
/begin GROUP g1 "" ROOT
  /begin SUB_GROUP g2 /end SUB_GROUP
  /begin FUNCTION_LIST f1 f2 /end FUNCTION_LIST
  /begin REF_CHARACTERISTIC c1 /end REF_CHARACTERISTIC
  /begin REF_MEASUREMENT m1 m2 /end REF_MEASUREMENT
/end GROUP
/begin GROUP g2 "" /end GROUP
"#;

fn members(f: &A2lFile) -> Vec<(String, Vec<Vec<String>>)> {
    let m = &f.project.module[0];
    let mut out = Vec::new();
    for x in &m.function {
        out.push((
            x.get_name().to_string(),
            vec![
                x.sub_function.as_ref().map(|l| l.identifier_list.clone()).unwrap_or_default(),
                x.in_measurement.as_ref().map(|l| l.identifier_list.clone()).unwrap_or_default(),
                x.loc_measurement.as_ref().map(|l| l.identifier_list.clone()).unwrap_or_default(),
                x.out_measurement.as_ref().map(|l| l.identifier_list.clone()).unwrap_or_default(),
                x.def_characteristic.as_ref().map(|l| l.identifier_list.clone()).unwrap_or_default(),
                x.ref_characteristic.as_ref().map(|l| l.identifier_list.clone()).unwrap_or_default(),
            ],
        ));
    }
    for x in &m.group {
        out.push((
            x.get_name().to_string(),
            vec![
                x.sub_group.as_ref().map(|l| l.identifier_list.clone()).unwrap_or_default(),
                x.function_list.as_ref().map(|l| l.name_list.clone()).unwrap_or_default(),
                x.ref_characteristic.as_ref().map(|l| l.identifier_list.clone()).unwrap_or_default(),
                x.ref_measurement.as_ref().map(|l| l.identifier_list.clone()).unwrap_or_default(),
            ],
        ));
    }
    out
}

/// T4c FUNCTION / GROUP: the old contract allowed the result to gain members when an identical copy is merged
/// (b1 = B's list "as judged" was only name-related to B's list). The code does not do that.
#[test]
fn identical_copy_function_group_unchanged() {
    let mut a = load(MEAS);
    let mut b = load(MEAS);
    let before = members(&a);
    let n_meas = a.project.module[0].measurement.len();
    a.merge_modules(&mut b);
    assert_eq!(members(&a), before);
    assert_eq!(a.project.module[0].measurement.len(), n_meas);
    assert_eq!(a.project.module[0].function.len(), 2);
    assert_eq!(a.project.module[0].group.len(), 2);
    // and a second time (sequence of merges)
    let mut c = load(MEAS);
    a.merge_modules(&mut c);
    assert_eq!(members(&a), before);
}

/// T4a / T4b on the real code: empty B is the identity, empty A yields B's lists
#[test]
fn empty_module_corollaries() {
    let mut a = load(MEAS);
    let mut e = load("");
    let before = members(&a);
    a.merge_modules(&mut e);
    assert_eq!(members(&a), before);
    let mut e2 = load("");
    let mut b = load(MEAS);
    e2.merge_modules(&mut b);
    assert_eq!(members(&e2), before);
    assert_eq!(e2.project.module[0].measurement.len(), 2);
}

/// control: when an object IS renamed (m1 differs), the members of B's FUNCTION are redirected and A's FUNCTION gains the new member
#[test]
fn conflict_renames_and_function_gains() {
    let mut a = load(MEAS);
    let mut b = load(&MEAS.replace("/begin MEASUREMENT m1 \"\" UBYTE", "/begin MEASUREMENT m1 \"\" UWORD"));
    a.merge_modules(&mut b);
    let m = &a.project.module[0];
    let names: Vec<String> = m.measurement.iter().map(|x| x.get_name().to_string()).collect();
    assert_eq!(names, vec!["m1", "m2", "m1.MERGE"]);
    let f1 = &m.function[0];
    assert_eq!(f1.in_measurement.as_ref().unwrap().identifier_list, vec!["m1", "m1.MERGE"]);
}
