#!/usr/bin/env python3
# generator of the per-kind part of /verif/contracts/U-MRG-THM.vrs (parts/30_module.rs); the generic parts are hand-written
PLAIN = [("unit", "Unit", "0", "0"), ("compu_method", "CompuMethod", "k_unit()", "k_tab()"), ("record_layout", "RecordLayout", "0", "0"),
         ("frame", "Frame", "k_obj()", "0"), ("transformer", "Transformer", "k_obj()", "0")]
NS = {
    "compu_tabs": ("AnyCompuTab", [("compu_tab", "CompuTab"), ("compu_vtab", "CompuVtab"), ("compu_vtab_range", "CompuVtabRange")]),
    "objects": ("AnyObject", [("axis_pts", "AxisPts"), ("blob", "Blob"), ("characteristic", "Characteristic"), ("instance", "Instance"), ("measurement", "Measurement")]),
    "typedefs": ("AnyTypedef", [("typedef_axis", "TypedefAxis"), ("typedef_blob", "TypedefBlob"), ("typedef_characteristic", "TypedefCharacteristic"), ("typedef_measurement", "TypedefMeasurement"), ("typedef_structure", "TypedefStructure")]),
}
ALL18 = [(f, t) for f, t, _, _ in PLAIN] + [x for ns in NS.values() for x in ns[1]]
ALL20 = ALL18 + [("function", "Function"), ("group", "Group")]
o = []
w = o.append

def off(m, lists, k):
    if k == 0:
        return "0"
    return "(" + " + ".join("%s.%s@.len()" % (m, f) for f, _ in lists[:k]) + ") as int"

w("""// ---------------------------------------------------------------------------------------------------
// Projection facts: in this unit's projection a named element of the 18 relabelled kinds consists of its name, and a String is
// determined by its characters (A-STR-EXT, prelude/strkeys.rs): lists with the same names are equal. Used ONLY for the
// "identical copy" corollary (T4c), where it identifies B's list as it was judged (after reference redirection) with B's list.
// ---------------------------------------------------------------------------------------------------
""")
for f, t in ALL18:
    w("""proof fn lemma_names_det_%s(x: Seq<%s>, y: Seq<%s>)
    requires
        same_names(x, y),
    ensures
        x == y,
{
    assert forall|i: int| 0 <= i < x.len() implies x[i] == y[i] by {
        assert(x[i].spec_name() == y[i].spec_name());
        assert(x[i].name@ == y[i].name@);
        axiom_string_ext(x[i].name, y[i].name);
    }
    assert(x =~= y);
}
""" % (f, t, t))

w("""// ---------------------------------------------------------------------------------------------------
// Lists with a name space of their own (UNIT, COMPU_METHOD, RECORD_LAYOUT, FRAME, TRANSFORMER; MEMORY_SEGMENT inside MOD_PAR)
// ---------------------------------------------------------------------------------------------------

/// reflexivity of the generated `==` of an element type (NOT assumed anywhere; hypothesis of the "identical copy" corollaries)
pub open spec fn eq_refl<T: PartialEq>() -> bool {
    forall|x: T| #[trigger] eqr(&x, &x)
}

/// T1 + T2 for a list with a name space of its own: b1 is B's list as it was judged (same names; the references of kinds k1, k2 held
/// by its elements redirected to the merged targets), see `list_repr`
pub open spec fn plain_repr<T: Relabel + PartialEq>(a: Seq<T>, b: Seq<T>, r: Seq<T>, k1: int, k2: int) -> bool {
    exists|b1: Seq<T>| same_names(b, b1) && (k1 != 0 ==> redirected(k1, b1)) && (k2 != 0 ==> redirected(k2, b1)) && #[trigger] list_repr(a, b1, 0, a, b, r)
}

proof fn lemma_plain_repr_direct<T: Relabel + PartialEq>(a: Seq<T>, b: Seq<T>, b1: Seq<T>, r: Seq<T>)
    requires
        list_merged(a, b1, r),
        same_names(b, b1),
        distinct_names(b),
    ensures
        list_repr(a, b1, 0, a, b, r),
{
    let (action, rename, mid) = choose|action: Map<String, bool>, rename: Map<String, String>, mid: Seq<T>| #[trigger] merged_witness(a, b1, r, action, rename, mid);
    lemma_same_names_distinct(b, b1);
    lemma_same_names_trans(b, b1, mid);
    assert forall|i: int| 0 <= i < b.len() implies (#[trigger] b[i]).spec_name() == b1[0 + i].spec_name() by {
        assert(b[i].spec_name() == b1[i].spec_name());
    }
    lemma_list_repr(a, b1, action, rename, 0, a, b, mid, r);
}

proof fn lemma_plain_repr<T: Relabel + PartialEq>(a: Seq<T>, b: Seq<T>, r: Seq<T>, k1: int, k2: int)
    requires
        list_merged_upto(a, b, r, k1, k2),
        distinct_names(b),
    ensures
        plain_repr(a, b, r, k1, k2),
{
    let b1 = choose|b1: Seq<T>| #[trigger] list_merged(a, b1, r) && same_names(b, b1) && (k1 != 0 ==> redirected(k1, b1)) && (k2 != 0 ==> redirected(k2, b1));
    lemma_plain_repr_direct(a, b, b1, r);
}

proof fn lemma_plain_empty_b<T: Relabel + PartialEq>(a: Seq<T>, b: Seq<T>, r: Seq<T>, k1: int, k2: int)
    requires
        list_merged_upto(a, b, r, k1, k2),
        b.len() == 0,
    ensures
        r == a,
{
    let b1 = choose|b1: Seq<T>| #[trigger] list_merged(a, b1, r) && same_names(b, b1) && (k1 != 0 ==> redirected(k1, b1)) && (k2 != 0 ==> redirected(k2, b1));
    lemma_list_merged_empty_b(a, b1, r);
}

proof fn lemma_plain_empty_a<T: Relabel + PartialEq>(a: Seq<T>, b: Seq<T>, r: Seq<T>, k1: int, k2: int)
    requires
        list_merged_upto(a, b, r, k1, k2),
        a.len() == 0,
        distinct_names(b),
    ensures
        same_names(b, r),
{
    let b1 = choose|b1: Seq<T>| #[trigger] list_merged(a, b1, r) && same_names(b, b1) && (k1 != 0 ==> redirected(k1, b1)) && (k2 != 0 ==> redirected(k2, b1));
    lemma_same_names_distinct(b, b1);
    lemma_list_merged_empty_a(a, b1, r);
    lemma_same_names_trans(b, b1, r);
}

/// T1 read off `plain_repr`
proof fn lemma_repr_prefix_plain<T: Relabel + PartialEq>(a: Seq<T>, b: Seq<T>, r: Seq<T>, k1: int, k2: int)
    requires
        plain_repr(a, b, r, k1, k2),
    ensures
        r.len() >= a.len(),
        forall|i: int| 0 <= i < a.len() ==> #[trigger] r[i] == a[i],
{
    let b1 = choose|b1: Seq<T>| same_names(b, b1) && (k1 != 0 ==> redirected(k1, b1)) && (k2 != 0 ==> redirected(k2, b1)) && #[trigger] list_repr(a, b1, 0, a, b, r);
    lemma_repr_prefix(a, b1, 0, a, b, r);
}

/// generic core of T4c: the decision table was computed for a name space against ITSELF, the generated `==` is reflexive
proof fn lemma_twin<U: A2lObjectName + PartialEq, T: Relabel>(ns_a: Seq<U>, action: Map<String, bool>, rename: Map<String, String>, mid: Seq<T>, off: int, a: Seq<T>, r: Seq<T>)
    requires
        actions_ok(ns_a, ns_a, ns_a.len() as int, action, rename),
        distinct_names(ns_a),
        eq_refl::<U>(),
        0 <= off,
        off + mid.len() <= ns_a.len(),
        forall|i: int| 0 <= i < mid.len() ==> (#[trigger] mid[i]).spec_name() == ns_a[off + i].spec_name(),
        r == a + merged_tail(mid, action, rename),
    ensures
        r == a,
{
    lemma_distinct_pos(ns_a);
    assert forall|i: int| 0 <= i < mid.len() implies act_skip(ns_a, #[trigger] ns_a[off + i]) by {
        let p = off + i;
        assert(shas(ns_a, ns_a[p].spec_name()) && spos(ns_a, ns_a[p].spec_name()) == p);
        assert(eqr(&ns_a[p], &ns_a[p]));
    }
    lemma_tail_all_skipped(ns_a, ns_a, action, rename, mid, off);
    assert(a + Seq::<T>::empty() =~= a);
}

/// T4c for a list with a name space of its own, given that the judged list b1 IS a
proof fn lemma_plain_twin<T: Relabel + PartialEq>(a: Seq<T>, r: Seq<T>)
    requires
        list_merged(a, a, r),
        distinct_names(a),
        eq_refl::<T>(),
    ensures
        r == a,
{
    let (action, rename, mid) = choose|action: Map<String, bool>, rename: Map<String, String>, mid: Seq<T>| #[trigger] merged_witness(a, a, r, action, rename, mid);
    assert forall|i: int| 0 <= i < mid.len() implies (#[trigger] mid[i]).spec_name() == a[0 + i].spec_name() by {
        assert(a[i].spec_name() == mid[i].spec_name());
    }
    lemma_twin(a, action, rename, mid, 0, a, r);
}
""")

for f, t, k1, k2 in PLAIN:
    w("""proof fn lemma_twin_%(f)s(a: Seq<%(t)s>, b: Seq<%(t)s>, r: Seq<%(t)s>)
    requires
        list_merged_upto(a, b, r, %(k1)s, %(k2)s),
        b == a,
        distinct_names(a),
        eq_refl::<%(t)s>(),
    ensures
        r == a,
{
    let b1 = choose|b1: Seq<%(t)s>| #[trigger] list_merged(a, b1, r) && same_names(b, b1) && (%(k1)s != 0 ==> redirected(%(k1)s, b1)) && (%(k2)s != 0 ==> redirected(%(k2)s, b1));
    lemma_names_det_%(f)s(a, b1);
    lemma_plain_twin(a, r);
}
""" % dict(f=f, t=t, k1=k1, k2=k2))

w("""// ---------------------------------------------------------------------------------------------------
// The three shared name spaces
// ---------------------------------------------------------------------------------------------------
""")
for ns, (anyt, lists) in NS.items():
    d = dict(ns=ns, anyt=anyt)
    mids_decl = ", ".join("mid_%s: Seq<%s>" % (f, t) for f, t in lists)
    mids = ", ".join("mid_%s" % f for f, _ in lists)
    total_b = " + ".join("b.%s@.len()" % f for f, _ in lists)
    w("/// the names of the name space `%(ns)s` depend on the names of its member lists only, position by position" % d)
    w("proof fn lemma_ns_names_%(ns)s(b: &Module, b1: &Module)" % d)
    w("    requires")
    for f, _ in lists:
        w("        same_names(b.%s@, b1.%s@)," % (f, f))
    w("    ensures")
    w("        ns_%(ns)s(b1).len() == ns_%(ns)s(b).len()," % d)
    w("        ns_%s(b).len() == %s," % (ns, total_b))
    w("        forall|p: int| 0 <= p < ns_%(ns)s(b).len() ==> (#[trigger] ns_%(ns)s(b1)[p]).spec_name() == ns_%(ns)s(b)[p].spec_name()," % d)
    w("        distinct_names(ns_%(ns)s(b)) ==> distinct_names(ns_%(ns)s(b1))," % d)
    w("{")
    w("    lemma_ns_%(ns)s(b);" % d)
    w("    lemma_ns_%(ns)s(b1);" % d)
    w("    assert forall|p: int| 0 <= p < ns_%(ns)s(b).len() implies (#[trigger] ns_%(ns)s(b1)[p]).spec_name() == ns_%(ns)s(b)[p].spec_name() by {" % d)
    w("        lemma_ns_%(ns)s_pos(b, p);" % d)
    w("        lemma_ns_%(ns)s_pos(b1, p);" % d)
    w("    }")
    w("    if distinct_names(ns_%(ns)s(b)) {" % d)
    w("        assert forall|i: int, j: int| 0 <= i < ns_%(ns)s(b1).len() && 0 <= j < ns_%(ns)s(b1).len() && i != j implies (#[trigger] ns_%(ns)s(b1)[i]).spec_name() != (#[trigger] ns_%(ns)s(b1)[j]).spec_name() by {" % d)
    w("            assert(ns_%(ns)s(b1)[i].spec_name() == ns_%(ns)s(b)[i].spec_name());" % d)
    w("            assert(ns_%(ns)s(b1)[j].spec_name() == ns_%(ns)s(b)[j].spec_name());" % d)
    w("        }")
    w("    }")
    w("}")
    w("")
    # repr_at
    w("/// T1 + T2 for the name space `%(ns)s`: b1 is B as it was judged (same names in every member list; references redirected)," % d)
    w("/// ONE decision per element of the whole name space (`act_skip(ns_%(ns)s(a), ns_%(ns)s(b1)[p])`), fresh names are names of neither" % d)
    w("/// name space, see `list_repr`")
    w("pub open spec fn %(ns)s_repr_at(a: &Module, b: &Module, r: &Module, b1: &Module) -> bool {" % d)
    for f, _ in lists:
        w("    &&& same_names(b.%s@, b1.%s@)" % (f, f))
    w("    &&& ns_%s(b1).len() == %s" % (ns, total_b))
    for k, (f, _) in enumerate(lists):
        w("    &&& list_repr(ns_%s(a), ns_%s(b1), %s, a.%s@, b.%s@, r.%s@)" % (ns, ns, off("b", lists, k), f, f, f))
    w("}")
    w("")
    w("pub open spec fn %(ns)s_repr(a: &Module, b: &Module, r: &Module) -> bool {" % d)
    w("    exists|b1: Module| #[trigger] %(ns)s_repr_at(a, b, r, &b1)" % d)
    w("}")
    w("")
    # unpack helper: a proof fn returning the witnesses is awkward; inline the choose in each theorem
    def unpack():
        w("    let mseg = a.mod_par.is_some() && b.mod_par.is_some();")
        w("    let bc = choose|bc: Module| #[trigger] ns_upto_%(ns)s(a, b, r, &bc, mseg);" % d)
        w("    let (action, rename, b1, %s) = choose|action: Map<String, bool>, rename: Map<String, String>, b1: Module, %s| #[trigger] ns_witness_%s(a, &bc, r, action, rename, &b1, %s);" % (mids, mids_decl, ns, mids))
        for f, _ in lists:
            w("    lemma_same_names_trans(b.%s@, bc.%s@, b1.%s@);" % (f, f, f))
            w("    lemma_same_names_trans(b.%s@, bc.%s@, mid_%s);" % (f, f, f))
        w("    let na = ns_%(ns)s(a);" % d)
        w("    let nb = ns_%(ns)s(&b1);" % d)
        w("    lemma_ns_names_%(ns)s(b, &b1);" % d)
        w("    lemma_ns_%(ns)s(&b1);" % d)
    def posfacts(which):
        # which: 'b' (names of b's list) or 'mid'
        for k, (f, _) in enumerate(lists):
            src = "b.%s@" % f if which == "b" else "mid_%s" % f
            w("    assert forall|i: int| 0 <= i < %s.len() implies (#[trigger] %s[i]).spec_name() == nb[%s + i].spec_name() by {" % (src, src, off("b", lists, k)))
            w("        assert(b.%s@[i].spec_name() == b1.%s@[i].spec_name());" % (f, f))
            if which != "b":
                w("        assert(b.%s@[i].spec_name() == mid_%s[i].spec_name());" % (f, f))
            w("        assert(nb[%s + i].spec_name() == b1.%s@[i].spec_name());" % (off("b1", lists, k), f))
            w("    }")
    # theorem repr
    w("pub proof fn theorem_repr_%(ns)s(a: &Module, b: &Module, r: &Module)" % d)
    w("    requires")
    w("        modules_merged(a, b, r),")
    w("        ns_unique_%(ns)s(b)," % d)
    w("    ensures")
    w("        %(ns)s_repr(a, b, r)," % d)
    w("{")
    unpack()
    w("    lemma_ns_%(ns)s(b);" % d)
    posfacts("b")
    for k, (f, _) in enumerate(lists):
        w("    lemma_list_repr(na, nb, action, rename, %s, a.%s@, b.%s@, mid_%s, r.%s@);" % (off("b", lists, k), f, f, f, f))
    w("    assert(%(ns)s_repr_at(a, b, r, &b1));" % d)
    w("}")
    w("")
    # empty b
    w("proof fn lemma_empty_b_%(ns)s(a: &Module, b: &Module, r: &Module)" % d)
    w("    requires")
    w("        modules_merged(a, b, r),")
    for f, _ in lists:
        w("        b.%s@.len() == 0," % f)
    w("    ensures")
    for f, _ in lists:
        w("        r.%s@ == a.%s@," % (f, f))
    w("{")
    unpack()
    for f, _ in lists:
        w("    lemma_tail_empty_b(mid_%s, action, rename, a.%s@);" % (f, f))
    w("}")
    w("")
    # empty a
    w("proof fn lemma_empty_a_%(ns)s(a: &Module, b: &Module, r: &Module)" % d)
    w("    requires")
    w("        modules_merged(a, b, r),")
    for f, _ in lists:
        w("        a.%s@.len() == 0," % f)
    w("    ensures")
    for f, _ in lists:
        w("        same_names(b.%s@, r.%s@)," % (f, f))
    w("{")
    unpack()
    w("    lemma_ns_%(ns)s(a);" % d)
    posfacts("mid")
    for k, (f, t) in enumerate(lists):
        w("    lemma_tail_empty_a(na, nb, action, rename, mid_%s, %s);" % (f, off("b", lists, k)))
        w("    assert(a.%s@ + mid_%s =~= mid_%s);" % (f, f, f))
    w("}")
    w("")
    # twin
    w("proof fn lemma_twin_%(ns)s(a: &Module, b: &Module, r: &Module)" % d)
    w("    requires")
    w("        modules_merged(a, b, r),")
    for f, _ in lists:
        w("        b.%s@ == a.%s@," % (f, f))
    w("        ns_unique_%(ns)s(a)," % d)
    w("        eq_refl::<%(anyt)s>()," % d)
    w("    ensures")
    for f, _ in lists:
        w("        r.%s@ == a.%s@," % (f, f))
    w("{")
    unpack()
    for f, _ in lists:
        w("    lemma_names_det_%s(a.%s@, b1.%s@);" % (f, f, f))
    w("    lemma_ns_%(ns)s(a);" % d)
    w("    assert(nb =~= na);")
    posfacts("mid")
    for k, (f, t) in enumerate(lists):
        w("    lemma_twin(na, action, rename, mid_%s, %s, a.%s@, r.%s@);" % (f, off("b", lists, k), f, f))
    w("}")
    w("")

open("/tmp/builder-mrgthm/parts/30_module.rs", "w").write("\n".join(o) + "\n")

# =====================================================================================================
# part 40: FUNCTION / GROUP, singletons, T3, whole-module theorems
# =====================================================================================================
o = []
w = o.append
FN_LISTS = [("sub_function", "SubFunction"), ("in_measurement", "InMeasurement"), ("loc_measurement", "LocMeasurement"), ("out_measurement", "OutMeasurement"), ("def_characteristic", "DefCharacteristic"), ("ref_characteristic", "RefCharacteristic")]
GR_LISTS = [("sub_group", "SubGroup"), ("function_list", "FunctionList"), ("ref_characteristic", "RefCharacteristic"), ("ref_measurement", "RefMeasurement")]
w("""// ---------------------------------------------------------------------------------------------------
// FUNCTION and GROUP (merged by name; same-name elements only gain members)
// ---------------------------------------------------------------------------------------------------
""")
for kind, T, lists, fld in (("function", "Function", FN_LISTS, "function"), ("group", "Group", GR_LISTS, "group")):
    d = dict(k=kind, T=T)
    w("""/// what `%(k)s_rel()` (the parameter of gm_inv / gm_repr for %(T)s) says about an element o of A, the same-name element x of B (as it was
/// judged) and the result r: an identical twin changes nothing; otherwise r keeps o's name and EVERY member list of r is
/// `old ++ (new \\ old)` (`union_list`: o's members in order, then the members of x that are not yet there, in order), a list that only
/// x has is taken over, a list that x does not have is kept
proof fn lemma_%(k)s_rel_meaning(o: %(T)s, x: %(T)s, r: %(T)s)
    ensures
        %(k)s_rel()(o, x, r) == %(k)s_merged_elem(o, x, r),
        %(k)s_merged_elem(o, x, r) && eqr(&o, &x) ==> r == o,
        %(k)s_merged_elem(o, x, r) && !eqr(&o, &x) ==> {
            &&& r.spec_name() == o.spec_name()""" % d)
    for f, t in lists:
        w("            &&& union_rel_%s(o.%s, x.%s, r.%s)" % (t, f, f, f))
    w("""        },
{
}

/// T1 + T2 for %(T)s: b1 is B's list as it was judged (same names, object references redirected), see `gm_repr`; every element of A
/// keeps its position and name and every member list of it is a prefix of the corresponding list of the result (`%(k)s_gains`)
pub open spec fn %(k)s_repr(a: Seq<%(T)s>, b: Seq<%(T)s>, r: Seq<%(T)s>) -> bool {
    &&& exists|b1: Seq<%(T)s>| same_names(b, b1) && redirected(k_obj(), b1) && #[trigger] gm_repr(a, b1, r, %(k)s_rel())
    &&& r.len() >= a.len()
    &&& forall|i: int| 0 <= i < a.len() ==> %(k)s_gains(a[i], #[trigger] r[i])
}

pub proof fn theorem_repr_%(k)s(a: &Module, b: &Module, r: &Module)
    requires
        modules_merged(a, b, r),
        a.%(k)s.wf(),
        b.%(k)s.wf(),
    ensures
        %(k)s_repr(a.%(k)s@, b.%(k)s@, r.%(k)s@),
{
    let b1 = choose|b1: Seq<%(T)s>| #[trigger] %(k)s_merged(a.%(k)s@, b1, r.%(k)s@) && same_names(b.%(k)s@, b1) && redirected(k_obj(), b1);
    lemma_wf_distinct(&a.%(k)s);
    lemma_wf_distinct(&b.%(k)s);
    lemma_same_names_distinct(b.%(k)s@, b1);
    lemma_gm_repr(a.%(k)s@, b1, r.%(k)s@, %(k)s_rel());
    lemma_%(k)s_merged_gains(a.%(k)s@, b1, r.%(k)s@);
}

proof fn lemma_empty_b_%(k)s(a: &Module, b: &Module, r: &Module)
    requires
        modules_merged(a, b, r),
        b.%(k)s@.len() == 0,
    ensures
        r.%(k)s@ == a.%(k)s@,
{
    let b1 = choose|b1: Seq<%(T)s>| #[trigger] %(k)s_merged(a.%(k)s@, b1, r.%(k)s@) && same_names(b.%(k)s@, b1) && redirected(k_obj(), b1);
    lemma_gm_empty_b(a.%(k)s@, b1, r.%(k)s@, %(k)s_rel());
}

/// merging into an empty list: the result IS B's list as it was judged (b1: same names, references redirected)
proof fn lemma_empty_a_%(k)s(a: &Module, b: &Module, r: &Module)
    requires
        modules_merged(a, b, r),
        a.%(k)s@.len() == 0,
    ensures
        same_names(b.%(k)s@, r.%(k)s@),
        redirected(k_obj(), r.%(k)s@),
{
    let b1 = choose|b1: Seq<%(T)s>| #[trigger] %(k)s_merged(a.%(k)s@, b1, r.%(k)s@) && same_names(b.%(k)s@, b1) && redirected(k_obj(), b1);
    lemma_gm_empty_a(a.%(k)s@, b1, r.%(k)s@, %(k)s_rel());
}
""" % d)

w("""// ---------------------------------------------------------------------------------------------------
// Singletons and unnamed lists
// ---------------------------------------------------------------------------------------------------

pub open spec fn is_prefix<T>(x: Seq<T>, y: Seq<T>) -> bool {
    x.len() <= y.len() && y.subrange(0, x.len() as int) == x
}

proof fn lemma_ur_union_prefix(o: Seq<UserRights>, m: Seq<UserRights>)
    ensures
        is_prefix(o, ur_union(o, m)),
    decreases m.len(),
{
    if m.len() == 0 {
        assert(o.subrange(0, o.len() as int) =~= o);
    } else {
        lemma_ur_union_prefix(o, m.drop_last());
        let u1 = ur_union(o, m.drop_last());
        let u = ur_union(o, m);
        assert(u.subrange(0, o.len() as int) =~= u1.subrange(0, o.len() as int));
    }
}

proof fn lemma_ml_union_prefix(o: Seq<MemoryLayout>, m: Seq<MemoryLayout>)
    ensures
        is_prefix(o, ml_union(o, m)),
    decreases m.len(),
{
    if m.len() == 0 {
        assert(o.subrange(0, o.len() as int) =~= o);
    } else {
        lemma_ml_union_prefix(o, m.drop_last());
        let u1 = ml_union(o, m.drop_last());
        let u = ml_union(o, m);
        assert(u.subrange(0, o.len() as int) =~= u1.subrange(0, o.len() as int));
    }
}

/// T1 for the singletons and unnamed lists: what A has is kept (A2ML, MOD_COMMON, VARIANT_CODING, IF_DATA: A's wins as a whole;
/// USER_RIGHTS, MEMORY_LAYOUT, SYSTEM_CONSTANT, MEMORY_SEGMENT: A's entries are a prefix of the result)
pub open spec fn singles_kept(a: &Module, r: &Module) -> bool {
    &&& (a.a2ml.is_some() ==> r.a2ml == a.a2ml)
    &&& (a.mod_common.is_some() ==> r.mod_common == a.mod_common)
    &&& (a.variant_coding.is_some() ==> r.variant_coding == a.variant_coding)
    &&& (a.if_data@.len() != 0 ==> r.if_data@ == a.if_data@)
    &&& is_prefix(a.user_rights@, r.user_rights@)
    &&& (a.mod_par.is_some() ==> {
        &&& r.mod_par.is_some()
        &&& is_prefix(a.mod_par.unwrap().memory_layout@, r.mod_par.unwrap().memory_layout@)
        &&& is_prefix(a.mod_par.unwrap().system_constant@, r.mod_par.unwrap().system_constant@)
        &&& is_prefix(a.mod_par.unwrap().memory_segment@, r.mod_par.unwrap().memory_segment@)
    })
}

/// T2 for the singletons: what only B has is taken over (as far as the contract tracks it: A2ML and MOD_PAR as values, MOD_COMMON /
/// VARIANT_CODING by presence, IF_DATA by length); MEMORY_SEGMENTs are merged like every other named list; USER_RIGHTS / MEMORY_LAYOUT /
/// SYSTEM_CONSTANT are the documented unions
pub open spec fn singles_repr(a: &Module, b: &Module, r: &Module) -> bool {
    &&& (a.a2ml.is_none() ==> r.a2ml == b.a2ml)
    &&& (a.mod_common.is_none() ==> r.mod_common.is_some() == b.mod_common.is_some())
    &&& (a.variant_coding.is_none() ==> r.variant_coding.is_some() == b.variant_coding.is_some())
    &&& (a.if_data@.len() == 0 ==> r.if_data@.len() == b.if_data@.len())
    &&& r.user_rights@ == ur_union(a.user_rights@, b.user_rights@)
    &&& (a.mod_par.is_none() ==> r.mod_par == b.mod_par)
    &&& (b.mod_par.is_none() ==> r.mod_par == a.mod_par)
    &&& (a.mod_par.is_some() && b.mod_par.is_some() ==> {
        &&& r.mod_par.is_some()
        &&& r.mod_par.unwrap().memory_layout@ == ml_union(a.mod_par.unwrap().memory_layout@, b.mod_par.unwrap().memory_layout@)
        &&& r.mod_par.unwrap().system_constant@ == a.mod_par.unwrap().system_constant@ + sc_tail(a.mod_par.unwrap().system_constant@, b.mod_par.unwrap().system_constant@)
        &&& list_repr(a.mod_par.unwrap().memory_segment@, b.mod_par.unwrap().memory_segment@, 0, a.mod_par.unwrap().memory_segment@, b.mod_par.unwrap().memory_segment@, r.mod_par.unwrap().memory_segment@)
    })
}

pub proof fn theorem_singles(a: &Module, b: &Module, r: &Module)
    requires
        modules_merged(a, b, r),
        singles_wf(b),
    ensures
        singles_kept(a, r),
        singles_repr(a, b, r),
{
    lemma_ur_union_prefix(a.user_rights@, b.user_rights@);
    if a.mod_par.is_some() {
        let am = a.mod_par.unwrap();
        if b.mod_par.is_some() {
            let bm = b.mod_par.unwrap();
            let rm = r.mod_par.unwrap();
            lemma_ml_union_prefix(am.memory_layout@, bm.memory_layout@);
            let sa = am.system_constant@;
            let st = sc_tail(sa, bm.system_constant@);
            assert((sa + st).subrange(0, sa.len() as int) =~= sa);
            lemma_wf_distinct(&bm.memory_segment);
            lemma_plain_repr_direct(am.memory_segment@, bm.memory_segment@, bm.memory_segment@, rm.memory_segment@);
            assert(rm.memory_segment@.subrange(0, am.memory_segment@.len() as int) =~= am.memory_segment@);
        } else {
            assert(am.memory_layout@.subrange(0, am.memory_layout@.len() as int) =~= am.memory_layout@);
            assert(am.system_constant@.subrange(0, am.system_constant@.len() as int) =~= am.system_constant@);
            assert(am.memory_segment@.subrange(0, am.memory_segment@.len() as int) =~= am.memory_segment@);
        }
    }
}
""")

w("""// ---------------------------------------------------------------------------------------------------
// (T1) + (T2): the whole module
// ---------------------------------------------------------------------------------------------------

/// B's names are unique: in every list and across the member lists of the three shared name spaces (part of `pre_merge`)
pub open spec fn names_unique(m: &Module) -> bool {
    lists_wf(m) && ns_unique_compu_tabs(m) && ns_unique_objects(m) && ns_unique_typedefs(m)
}

/// (T1) + (T2) for all 20 named kinds (+ MEMORY_SEGMENT and the singletons)
pub open spec fn merge_conserves(a: &Module, b: &Module, r: &Module) -> bool {""")
for f, t, k1, k2 in PLAIN:
    w("    &&& plain_repr(a.%s@, b.%s@, r.%s@, %s, %s)" % (f, f, f, k1, k2))
for ns in NS:
    w("    &&& %s_repr(a, b, r)" % ns)
w("""    &&& function_repr(a.function@, b.function@, r.function@)
    &&& group_repr(a.group@, b.group@, r.group@)
    &&& singles_kept(a, r)
    &&& singles_repr(a, b, r)
}

/// (T1) + (T2)   Everything `merge_conserves` says follows from the postcondition of `merge_modules` and the uniqueness of the names of
/// the two inputs (which is part of merge_modules' precondition).
pub proof fn theorem_merge_conserves(a: &Module, b: &Module, r: &Module)
    requires
        modules_merged(a, b, r),
        names_unique(a),
        names_unique(b),
    ensures
        merge_conserves(a, b, r),
{""")
for f, t, k1, k2 in PLAIN:
    w("    lemma_wf_distinct(&b.%s);" % f)
    w("    lemma_plain_repr(a.%s@, b.%s@, r.%s@, %s, %s);" % (f, f, f, k1, k2))
for ns in NS:
    w("    theorem_repr_%s(a, b, r);" % ns)
w("""    theorem_repr_function(a, b, r);
    theorem_repr_group(a, b, r);
    theorem_singles(a, b, r);
}

/// (T1) spelled out as the plain corollary: every element of every list of A is in r at the same position, unchanged (projection:
/// name; FUNCTION / GROUP: same name, member lists only gain)
pub proof fn theorem_a_conserved(a: &Module, b: &Module, r: &Module)
    requires
        modules_merged(a, b, r),
        names_unique(a),
        names_unique(b),
    ensures""")
for f, t in ALL18:
    w("        r.%s@.len() >= a.%s@.len() && forall|i: int| 0 <= i < a.%s@.len() ==> #[trigger] r.%s@[i] == a.%s@[i]," % (f, f, f, f, f))
w("""        r.function@.len() >= a.function@.len() && forall|i: int| 0 <= i < a.function@.len() ==> function_gains(a.function@[i], #[trigger] r.function@[i]),
        r.group@.len() >= a.group@.len() && forall|i: int| 0 <= i < a.group@.len() ==> group_gains(a.group@[i], #[trigger] r.group@[i]),
        singles_kept(a, r),
{
    theorem_merge_conserves(a, b, r);""")
for f, t, k1, k2 in PLAIN:
    w("    lemma_repr_prefix_plain(a.%s@, b.%s@, r.%s@, %s, %s);" % (f, f, f, k1, k2))
for ns, (anyt, lists) in NS.items():
    w("    let b1_%s = choose|b1: Module| #[trigger] %s_repr_at(a, b, r, &b1);" % (ns, ns))
    for k, (f, t) in enumerate(lists):
        w("    lemma_repr_prefix(ns_%s(a), ns_%s(&b1_%s), %s, a.%s@, b.%s@, r.%s@);" % (ns, ns, ns, off("b", lists, k), f, f, f))
w("}")
w("")

w("""// ---------------------------------------------------------------------------------------------------
// (T3) uniqueness
// ---------------------------------------------------------------------------------------------------

/// (T3) every list of r has unique names (`wf`: the name index is coherent, which implies pairwise different names), the three shared
/// name spaces of r are unique ACROSS their member lists. (modules_merged states it outright; the hypotheses "the same for a and b" are
/// preconditions of merge_modules, not needed again here.)
pub proof fn theorem_unique(a: &Module, b: &Module, r: &Module)
    requires
        modules_merged(a, b, r),
    ensures
        lists_wf(r),
        ns_unique_compu_tabs(r),
        ns_unique_objects(r),
        ns_unique_typedefs(r),""")
for f, t in ALL20:
    w("        distinct_names(r.%s@)," % f)
w("""        distinct_names(ns_compu_tabs(r)),
        distinct_names(ns_objects(r)),
        distinct_names(ns_typedefs(r)),
        r.mod_par.is_some() ==> distinct_names(r.mod_par.unwrap().memory_segment@),
{""")
for f, t in ALL20:
    w("    lemma_wf_distinct(&r.%s);" % f)
w("""    lemma_ns_compu_tabs(r);
    lemma_ns_objects(r);
    lemma_ns_typedefs(r);
    if r.mod_par.is_some() {
        lemma_wf_distinct(&r.mod_par.unwrap().memory_segment);
    }
}

/// the result of a merge is again a legal first argument of merge_modules ("sequences of several merges")
pub proof fn theorem_remergeable(a: &Module, b: &Module, r: &Module)
    requires
        modules_merged(a, b, r),
    ensures
        names_unique(r),
{
}
""")

w("""// ---------------------------------------------------------------------------------------------------
// (T4) the corollaries named in the property
// ---------------------------------------------------------------------------------------------------

pub open spec fn module_empty(m: &Module) -> bool {""")
for f, t in ALL20:
    w("    &&& m.%s@.len() == 0" % f)
w("""    &&& m.a2ml.is_none()
    &&& m.mod_par.is_none()
    &&& m.mod_common.is_none()
    &&& m.variant_coding.is_none()
    &&& m.if_data@.len() == 0
    &&& m.user_rights@.len() == 0
}

/// r and a have the same content (lists compared by their views)
pub open spec fn same_content(r: &Module, a: &Module) -> bool {""")
for f, t in ALL20:
    w("    &&& r.%s@ == a.%s@" % (f, f))
w("""    &&& r.a2ml == a.a2ml
    &&& r.mod_par == a.mod_par
    &&& r.mod_common == a.mod_common
    &&& r.variant_coding == a.variant_coding
    &&& r.if_data@ == a.if_data@
    &&& r.user_rights@ == a.user_rights@
}

/// (T4a) merging an EMPTY module changes nothing
pub proof fn theorem_merge_empty(a: &Module, b: &Module, r: &Module)
    requires
        modules_merged(a, b, r),
        module_empty(b),
    ensures
        same_content(r, a),
{""")
for f, t, k1, k2 in PLAIN:
    w("    lemma_plain_empty_b(a.%s@, b.%s@, r.%s@, %s, %s);" % (f, f, f, k1, k2))
for ns in NS:
    w("    lemma_empty_b_%s(a, b, r);" % ns)
w("""    lemma_empty_b_function(a, b, r);
    lemma_empty_b_group(a, b, r);
    assert(r.if_data@ =~= a.if_data@);
    assert(r.user_rights@ == a.user_rights@);
}

/// r has B's content as far as the projection and the contract track it: every named list has B's names in B's order (no element
/// dropped, none renamed), A2ML and MOD_PAR are B's, MOD_COMMON / VARIANT_CODING are present iff B has them, IF_DATA has B's length,
/// USER_RIGHTS is B's list without later blocks that repeat a user id
pub open spec fn yields(b: &Module, r: &Module) -> bool {""")
for f, t in ALL20:
    w("    &&& same_names(b.%s@, r.%s@)" % (f, f))
w("""    &&& r.a2ml == b.a2ml
    &&& r.mod_par == b.mod_par
    &&& r.mod_common.is_some() == b.mod_common.is_some()
    &&& r.variant_coding.is_some() == b.variant_coding.is_some()
    &&& r.if_data@.len() == b.if_data@.len()
    &&& r.user_rights@ == ur_union(Seq::<UserRights>::empty(), b.user_rights@)
}

/// (T4b) merging into an EMPTY module yields B's content
pub proof fn theorem_merge_into_empty(a: &Module, b: &Module, r: &Module)
    requires
        modules_merged(a, b, r),
        module_empty(a),
        names_unique(b),
    ensures
        yields(b, r),
{""")
for f, t, k1, k2 in PLAIN:
    w("    lemma_wf_distinct(&b.%s);" % f)
    w("    lemma_plain_empty_a(a.%s@, b.%s@, r.%s@, %s, %s);" % (f, f, f, k1, k2))
for ns in NS:
    w("    lemma_empty_a_%s(a, b, r);" % ns)
w("""    lemma_empty_a_function(a, b, r);
    lemma_empty_a_group(a, b, r);
    assert(a.user_rights@ =~= Seq::<UserRights>::empty());
}

/// the generated `==` of the element types whose decision tables T4c talks about is reflexive (hypothesis, nowhere assumed)
pub open spec fn eq_refl_all() -> bool {""")
for f, t, k1, k2 in PLAIN:
    w("    &&& eq_refl::<%s>()" % t)
for ns, (anyt, lists) in NS.items():
    w("    &&& eq_refl::<%s>()" % anyt)
w("""    &&& eq_refl::<MemorySegment>()
}

/// (T4c) merging an identical copy adds nothing - for the 18 relabelled kinds and MEMORY_SEGMENT.
/// "identical copy" in this unit's projection: B's lists are A's lists. Needed: reflexivity of the generated `==`.
/// (For the 18 kinds the proof identifies B's list AS IT WAS JUDGED with B's list through the projection - an element is its name, see
/// `lemma_names_det_*`; for MEMORY_SEGMENT the contract states the decision on B's list itself.) FUNCTION / GROUP: not derivable, see notes.
pub proof fn theorem_merge_twin(a: &Module, b: &Module, r: &Module)
    requires
        modules_merged(a, b, r),
        names_unique(a),
        eq_refl_all(),""")
for f, t in ALL18:
    w("        b.%s@ == a.%s@," % (f, f))
w("    ensures")
for f, t in ALL18:
    w("        r.%s@ == a.%s@," % (f, f))
w("""        a.mod_par.is_some() && b.mod_par.is_some() && b.mod_par.unwrap().memory_segment@ == a.mod_par.unwrap().memory_segment@
            ==> r.mod_par.unwrap().memory_segment@ == a.mod_par.unwrap().memory_segment@,
{""")
for f, t, k1, k2 in PLAIN:
    w("    lemma_wf_distinct(&a.%s);" % f)
    w("    lemma_twin_%s(a.%s@, b.%s@, r.%s@);" % (f, f, f, f))
for ns in NS:
    w("    lemma_twin_%s(a, b, r);" % ns)
w("""    if a.mod_par.is_some() && b.mod_par.is_some() && b.mod_par.unwrap().memory_segment@ == a.mod_par.unwrap().memory_segment@ {
        lemma_wf_distinct(&a.mod_par.unwrap().memory_segment);
        lemma_plain_twin(a.mod_par.unwrap().memory_segment@, r.mod_par.unwrap().memory_segment@);
    }
}
""")
open("/tmp/builder-mrgthm/parts/40_module.rs", "w").write("\n".join(o) + "\n")
