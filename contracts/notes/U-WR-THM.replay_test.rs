// replay of the configurations of contracts/U-WR-THM.vrs on the real crate
use a2lfile::*;

fn load(text: &str) -> A2lFile {
    let (a, _log) = load_from_string(text, None, false).unwrap();
    a
}

const HEAD: &str = "ASAP2_VERSION 1 71\n/begin PROJECT p \"\"\n  /begin MODULE m \"\"\n";
const TAIL: &str = "\n  /end MODULE\n/end PROJECT";
fn meas(n: &str) -> String {
    format!("/begin MEASUREMENT {n} \"\" UBYTE NO_COMPU_METHOD 0 0 0 255 /end MEASUREMENT")
}

// T1c: [// c, X, Y] with Y on the line of X: removing X moves Y to a new line (text behind X is not the old text)
#[test]
fn t1c_remove_behind_line_comment() {
    let text = format!("{HEAD}    // c\n    {} {}{TAIL}", meas("x"), meas("y"));
    let mut a = load(&text);
    let before = a.write_to_string();
    a.project.module[0].measurement.retain(|m| m.get_name() != "x");
    let after = a.write_to_string();
    println!("--- before\n{before}\n--- after\n{after}");
    assert!(after.contains(&format!("// c\n    {}", meas("y"))));
    assert!(load_from_string(&after, None, true).is_ok());
    // line level: the lines in front of and behind the shared line are untouched
    let lb: Vec<&str> = before.lines().collect();
    let la: Vec<&str> = after.lines().collect();
    assert_eq!(lb.len(), la.len());
    let diff: Vec<usize> = (0..lb.len()).filter(|&k| lb[k] != la[k]).collect();
    println!("changed lines: {diff:?}");
    assert_eq!(diff.len(), 1);
}

// T1 (H-LC holds): [// c, X, Y] with Y on its own line: exactly the text of X disappears
#[test]
fn t1_remove_local() {
    let text = format!("{HEAD}    // c\n    {}\n    {}{TAIL}", meas("x"), meas("y"));
    let mut a = load(&text);
    let before = a.write_to_string();
    a.project.module[0].measurement.retain(|m| m.get_name() != "x");
    let after = a.write_to_string();
    let mid = format!("\n    {}", meas("x"));
    let k = before.find(&mid).unwrap();
    let expect = format!("{}{}", &before[..k], &before[k + mid.len()..]);
    assert_eq!(after, expect);
}

// KF-C05-1: last child behind a `//` comment, /end of the block on the child's line
#[test]
fn kf_c05_1() {
    let text = format!("{HEAD}    {} // c\n    {} /end MODULE\n/end PROJECT", meas("a"), meas("x"));
    let mut a = load(&text);
    let before = a.write_to_string();
    a.project.module[0].measurement.retain(|m| m.get_name() != "x");
    let after = a.write_to_string();
    println!("--- before\n{before}\n--- after\n{after}");
    let mid = format!("\n    {}", meas("x"));
    let k = before.find(&mid).unwrap();
    let expect = format!("{}{}", &before[..k], &before[k + mid.len()..]);
    assert_eq!(after, expect, "text-local (T1)");
    assert!(after.contains("// c /end MODULE"));
    assert!(load_from_string(&after, None, false).is_err(), "KF-C05-1: the written file does not load");
}
