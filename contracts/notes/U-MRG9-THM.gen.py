#!/usr/bin/env python3
"""Generator of the mechanical part of contracts/U-MRG9-THM.vrs (between `// GEN-BEGIN` and `// GEN-END`).

Reads the site table of unit U-MRG9 (the `impl Ren for X { closed spec fn ren ... }` blocks and `ren_module` of
contracts/U-MRG9.vrs) and emits, for every block X and for `Module`:

  * `impl Rel for X`  : the SAME clauses with the concrete relation `b.s == rn(t.K, a.s)` replaced by an arbitrary
                        relation `(r.K)(a.s, b.s)` per kind (element names / never-renamed references: unchanged);
  * `impl Thm for X`  : proofs of  l_eq   ren(a,b,t) <==> rel(a,b,rels_of(t))      (the two site tables AGREE: a site
                                          missing in `rel` makes `<==` fail, a site too many makes `==>` fail)
                                   l_comp rel(a,b,r1) && rel(b,c,r2) ==> rel(a,c,comp(r1,r2))
                                   l_mono rel(a,b,r1) && sub(r1,r2)  ==> rel(a,b,r2)
                                   l_cod  rel(a,b,r)  && cod_in(r,q) ==> rel(b,b,diag(q))
                                   holds() / l_indep   the kinds of which X holds a site (directly or in a sub-block; computed here
                                          transitively, field types read from $VF_REPO/a2lfile/src/specification.rs), and the PROOF
                                          that rel(a,b,r) does not depend on the relations of the other kinds
Nothing here is trusted: the output is Verus text that is verified like hand-written text (if U-MRG9's `ren` changes and
this generator is not re-run, `l_eq` fails).

usage:  python3 contracts/notes/U-MRG9-THM.gen.py            # prints the generated region
        python3 contracts/notes/U-MRG9-THM.gen.py --inplace  # rewrites the region in contracts/U-MRG9-THM.vrs
"""
import os
import re
import sys

HERE = os.path.dirname(os.path.abspath(__file__))
SRC = os.path.join(HERE, "..", "U-MRG9.vrs")
DST = os.path.join(HERE, "..", "U-MRG9-THM.vrs")
SPEC = os.path.join(os.environ.get("VF_REPO", "/repo"), "a2lfile", "src", "specification.rs")
KINDS = ["obj", "cm", "tab", "unit", "rl", "td", "ms", "tr"]


def field_elem_type(spec_text, ty, field):
    m = re.search(r"pub struct %s \{(.*?)\n\}" % ty, spec_text, re.S)
    f = re.search(r"\b%s: ([^,\n]+)," % field, m.group(1))
    inner = re.fullmatch(r"(?:Option|Vec|ItemList)<(\w+)>", f.group(1).strip())
    return inner.group(1)


def parse():
    text = open(SRC, encoding="utf-8").read()
    blocks = []  # (type, [clauses], selfname)
    for m in re.finditer(r"impl Ren for (\w+) \{\s*closed spec fn ren\(self, b: Self, t: Tabs\) -> bool \{(.*?)\n    \}\n\}", text, re.S):
        cl = [c.strip() for c in m.group(2).split("&&&") if c.strip()]
        blocks.append((m.group(1), cl, "self"))
    m = re.search(r"pub closed spec fn ren_module\(a: Module, b: Module, t: Tabs\) -> bool \{(.*?)\n\}", text, re.S)
    cl = [c.strip() for c in m.group(1).split("&&&") if c.strip()]
    blocks.append(("Module", cl, "a"))
    return blocks


def conv(ty, clause, s):
    """-> (rel clause, kind of sub-lemma or None, field expr without self/b prefix, helper prefix)"""
    S = re.escape(s)
    m = re.fullmatch(r"b\.(\w+) == rn\(t\.(\w+), %s\.(\w+)\)" % S, clause)
    if m and m.group(1) == m.group(3):
        return "(r.%s)(self.%s, b.%s)" % (m.group(2), m.group(1), m.group(1)), None, None
    m = re.fullmatch(r"ren_idents\(%s\.(\w+)@, b\.(\w+)@, t\.(\w+)\)" % S, clause)
    if m and m.group(1) == m.group(2):
        return "rel_idents(self.%s@, b.%s@, r.%s)" % (m.group(1), m.group(1), m.group(3)), "li", (m.group(1) + "@", m.group(3))
    for fn, pre, at in (("ren_opt", "lo", ""), ("ren_seq", "ls", "@"), ("ren_list", "ll", "")):
        m = re.fullmatch(r"%s\(%s\.(\w+)%s, b\.(\w+)%s, t\)" % (fn, S, at, at), clause)
        if m and m.group(1) == m.group(2):
            return "%s(self.%s%s, b.%s%s, r)" % (fn.replace("ren_", "rel_"), m.group(1), at, m.group(1), at), pre, (m.group(1) + at, None)
    m = re.fullmatch(r"b\.(\w+)(@?) == %s\.(\w+)(@?)" % S, clause)
    if m and m.group(1) == m.group(3) and m.group(2) == m.group(4):
        return "b.%s%s == self.%s%s" % (m.group(1), m.group(2), m.group(1), m.group(2)), None, None
    raise SystemExit("unrecognised clause of %s: %r" % (ty, clause))


def gen():
    out = []
    blocks = parse()
    nsites = 0
    spec_text = open(SPEC, encoding="utf-8").read()
    holds = {}  # type -> set of kinds (blocks are listed bottom-up in U-MRG9.vrs: sub-blocks first)
    for ty, clauses, s in blocks:
        rel, eq, comp, mono, cod, indep = [], [], [], [], [], []
        own = set()
        for c in clauses:
            rc, pre, arg = conv(ty, c, s)
            rel.append(rc)
            mk = re.match(r"\(r\.(\w+)\)|rel_idents\(.*, r\.(\w+)\)$", rc)
            if mk:
                own.add(mk.group(1) or mk.group(2))
            if pre and pre != "li":
                sub_ty = field_elem_type(spec_text, ty, arg[0].rstrip("@"))
                if sub_ty not in holds:
                    raise SystemExit("%s.%s: sub-block %s not seen before" % (ty, arg[0], sub_ty))
                own |= holds[sub_ty]
                indep.append("%s_indep(self.%s, b.%s, r, r2);" % (pre, arg[0], arg[0]))
            if rc.startswith("(r.") or rc.startswith("rel_idents"):
                nsites += 1
            if pre == "li":
                f, k = arg
                cod.append("li_cod(self.%s, b.%s, r.%s, q.%s);" % (f, f, k, k))
            elif pre:
                f, _ = arg
                eq.append("%s_eq(self.%s, b.%s, t);" % (pre, f, f))
                comp.append("%s_comp(self.%s, b.%s, c.%s, r1, r2);" % (pre, f, f, f))
                mono.append("%s_mono(self.%s, b.%s, r1, r2);" % (pre, f, f))
                cod.append("%s_cod(self.%s, b.%s, r, q);" % (pre, f, f))
        if ty == "Module":
            out.append("impl Ren for Module {\n    open spec fn ren(self, b: Self, t: Tabs) -> bool { ren_module(self, b, t) }\n}")
        out.append("impl Rel for %s {\n    closed spec fn rel(self, b: Self, r: Rels) -> bool {\n%s\n    }\n}" % (
            ty, "\n".join("        &&& " + x for x in rel)))
        out.append("impl Thm for %s {\n"
                   "    proof fn l_eq(self, b: Self, t: Tabs) { %s }\n"
                   "    proof fn l_comp(self, b: Self, c: Self, r1: Rels, r2: Rels) { %s }\n"
                   "    proof fn l_mono(self, b: Self, r1: Rels, r2: Rels) { %s }\n"
                   "    proof fn l_cod(self, b: Self, r: Rels, q: Preds) { %s }\n"
                   "    open spec fn holds() -> Holds { Holds { %s } }\n"
                   "    proof fn l_indep(self, b: Self, r: Rels, r2: Rels) { %s }\n}" % (
                       ty, " ".join(eq), " ".join(comp), " ".join(mono), " ".join(cod),
                       ", ".join("%s: %s" % (k, "true" if k in own else "false") for k in KINDS), " ".join(indep)))
        holds[ty] = own
    head = "// generated by contracts/notes/U-MRG9-THM.gen.py from contracts/U-MRG9.vrs: %d blocks, %d site clauses (leaf level)" % (len(blocks), nsites)
    return head + "\n" + "\n".join(out)


if __name__ == "__main__":
    g = gen()
    if "--inplace" in sys.argv:
        t = open(DST, encoding="utf-8").read()
        a = t.index("// GEN-BEGIN")
        b = t.index("// GEN-END")
        t = t[:a] + "// GEN-BEGIN\n" + g + "\n" + t[b:]
        open(DST, "w", encoding="utf-8").write(t)
        print("rewrote", DST)
    else:
        print(g)
