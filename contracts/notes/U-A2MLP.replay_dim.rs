// replay helper for unit U-A2MLP, observation O2: array dimension of a member that consumes no input
fn main() {
    let dim = std::env::args().nth(1).unwrap();
    let a2l = format!(
        r#"ASAP2_VERSION 1 71 /begin PROJECT p "" /begin MODULE m ""
/begin A2ML block "IF_DATA" taggedstruct {{ "X" int; }}[{dim}]; /end A2ML
/begin IF_DATA Y /end IF_DATA
/end MODULE /end PROJECT"#
    );
    let t = std::time::Instant::now();
    match a2lfile::load_from_string(&a2l, None, false) {
        Ok((_, log)) => println!("RESULT: Ok, {} log msgs, {:?}", log.len(), t.elapsed()),
        Err(e) => println!("RESULT: Err({e}) {:?}", t.elapsed()),
    }
}
