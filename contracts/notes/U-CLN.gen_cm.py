#!/usr/bin/env python3
"""generated /verif/contracts/U-CLN-CM.vrs and (with --fixed) U-CLN-CM-FIXED.vrs; the templates are static text, this script only
saved typing (a 3-line header comment was added to both files by hand afterwards). Kept for reference by builder-cln."""
import sys
HEAD = r'''// Unit U-CLN-CM : a2lfile/src/cleanup/compu_methods.rs  (property C10: COMPU_METHOD / conversion tables / UNIT part)
//@property C10
#![feature(allocator_api)]
use vstd::prelude::*;
use std::collections::HashMap;
use std::collections::HashSet;
use std::cmp::Ordering;
use std::ops::{Index, IndexMut};
use vstd::std_specs::hash::*;
use vstd::std_specs::iter::IteratorSpec;

verus! {

//@include prelude/strkeys.rs
//@include prelude/std_specs.rs
//@include prelude/cln_specs.rs

broadcast use group_strkeys;

//@import U-CLN-IL
//@import U-CLN-TY

// ---------------------------------------------------------------------------------------------------
// C10 ghost vocabulary for the conversion half. Reference sites as in DESIGN.md §3 (checked against
// specification_orig.rs):
//   COMPU_METHOD      <- conversion of AXIS_PTS, CHARACTERISTIC, MEASUREMENT, AXIS_DESCR (in CHARACTERISTIC and in
//                        TYPEDEF_CHARACTERISTIC), TYPEDEF_AXIS, TYPEDEF_CHARACTERISTIC, TYPEDEF_MEASUREMENT;
//                        INSTANCE / OVERWRITE / CONVERSION.name
//   conversion table  <- COMPU_METHOD / COMPU_TAB_REF.conversion_table, COMPU_METHOD / STATUS_STRING_REF.conversion_table
//   UNIT              <- REF_UNIT.unit in COMPU_METHOD and in UNIT

spec fn no_cm() -> Seq<char> { "NO_COMPU_METHOD"@ }

/// the repaired value of a `conversion` reference: kept if the COMPU_METHOD exists in m0, else NO_COMPU_METHOD
spec fn fixc(m0: &Module, c: Seq<char>) -> Seq<char> { if m0.compu_method.has(c) { c } else { no_cm() } }

spec fn axis_descrs_fixed(m0: &Module, a: Seq<AxisDescr>, b: Seq<AxisDescr>) -> bool {
    a.len() == b.len() && forall|j: int| 0 <= j < b.len() ==> (#[trigger] a[j]).conversion@ == fixc(m0, b[j].conversion@)
}
spec fn axis_pts_fixed(m0: &Module, a: AxisPts, b: AxisPts) -> bool {
    a.name == b.name && a.deposit_record == b.deposit_record && a.function_list == b.function_list && a.conversion@ == fixc(m0, b.conversion@)
}
spec fn characteristic_fixed(m0: &Module, a: Characteristic, b: Characteristic) -> bool {
    a.name == b.name && a.deposit == b.deposit && a.function_list == b.function_list && a.conversion@ == fixc(m0, b.conversion@)
        && axis_descrs_fixed(m0, a.axis_descr@, b.axis_descr@)
}
spec fn measurement_fixed(m0: &Module, a: Measurement, b: Measurement) -> bool {
    a.name == b.name && a.function_list == b.function_list && a.conversion@ == fixc(m0, b.conversion@)
}
spec fn typedef_axis_fixed(m0: &Module, a: TypedefAxis, b: TypedefAxis) -> bool {
    a.name == b.name && a.record_layout == b.record_layout && a.conversion@ == fixc(m0, b.conversion@)
}
spec fn typedef_characteristic_fixed(m0: &Module, a: TypedefCharacteristic, b: TypedefCharacteristic) -> bool {
    a.name == b.name && a.record_layout == b.record_layout && a.conversion@ == fixc(m0, b.conversion@)
        && axis_descrs_fixed(m0, a.axis_descr@, b.axis_descr@)
}
spec fn typedef_measurement_fixed(m0: &Module, a: TypedefMeasurement, b: TypedefMeasurement) -> bool {
    a.name == b.name && a.conversion@ == fixc(m0, b.conversion@)
}

// ---- COMPU_METHOD usage: one spec fn per reference site, restricted to the first k elements of the list
spec fn ads_use(a: Seq<AxisDescr>, k: int, n: Seq<char>) -> bool {
    exists|j: int| 0 <= j < k && j < a.len() && (#[trigger] a[j]).conversion@ == n
}
spec fn site_ap(m: &Module, k: int, n: Seq<char>) -> bool {
    exists|i: int| 0 <= i < k && i < m.axis_pts@.len() && (#[trigger] m.axis_pts@[i]).conversion@ == n
}
spec fn ch_use(c: Characteristic, n: Seq<char>) -> bool { c.conversion@ == n || ads_use(c.axis_descr@, c.axis_descr@.len() as int, n) }
spec fn site_ch(m: &Module, k: int, n: Seq<char>) -> bool {
    exists|i: int| 0 <= i < k && i < m.characteristic@.len() && ch_use(#[trigger] m.characteristic@[i], n)
}
spec fn site_me(m: &Module, k: int, n: Seq<char>) -> bool {
    exists|i: int| 0 <= i < k && i < m.measurement@.len() && (#[trigger] m.measurement@[i]).conversion@ == n
}
spec fn site_ta(m: &Module, k: int, n: Seq<char>) -> bool {
    exists|i: int| 0 <= i < k && i < m.typedef_axis@.len() && (#[trigger] m.typedef_axis@[i]).conversion@ == n
}
spec fn tc_use(c: TypedefCharacteristic, n: Seq<char>) -> bool { c.conversion@ == n || ads_use(c.axis_descr@, c.axis_descr@.len() as int, n) }
spec fn site_tc(m: &Module, k: int, n: Seq<char>) -> bool {
    exists|i: int| 0 <= i < k && i < m.typedef_characteristic@.len() && tc_use(#[trigger] m.typedef_characteristic@[i], n)
}
spec fn site_tm(m: &Module, k: int, n: Seq<char>) -> bool {
    exists|i: int| 0 <= i < k && i < m.typedef_measurement@.len() && (#[trigger] m.typedef_measurement@[i]).conversion@ == n
}
spec fn ow_use(o: Seq<Overwrite>, k: int, n: Seq<char>) -> bool {
    exists|j: int| 0 <= j < k && j < o.len() && (#[trigger] o[j]).conversion is Some && o[j].conversion->0.name@ == n
}
spec fn site_in(m: &Module, k: int, n: Seq<char>) -> bool {
    exists|i: int| 0 <= i < k && i < m.instance@.len() && ow_use((#[trigger] m.instance@[i]).overwrite@, m.instance@[i].overwrite@.len() as int, n)
}
/// the sites of the first `stage` lists, in the order in which remove_unused_compumethods visits them
spec fn cm_used_upto(m: &Module, stage: int, n: Seq<char>) -> bool {
    ||| (stage > 0 && site_ap(m, m.axis_pts@.len() as int, n))
    ||| (stage > 1 && site_ch(m, m.characteristic@.len() as int, n))
    ||| (stage > 2 && site_me(m, m.measurement@.len() as int, n))
    ||| (stage > 3 && site_ta(m, m.typedef_axis@.len() as int, n))
    ||| (stage > 4 && site_tc(m, m.typedef_characteristic@.len() as int, n))
    ||| (stage > 5 && site_tm(m, m.typedef_measurement@.len() as int, n))
    ||| (stage > 6 && site_in(m, m.instance@.len() as int, n))
}
/// used_COMPU_METHOD(m): n occurs at some COMPU_METHOD reference site of m
spec fn cm_used(m: &Module, n: Seq<char>) -> bool { cm_used_upto(m, 7, n) }

/// view-level equality of a name-indexed list + preservation of its coherence
spec fn same_list<T: A2lObjectName>(a: ItemList<T>, b: ItemList<T>) -> bool { a@ == b@ && (b.wf() ==> a.wf()) }
spec fn cm_objects_same_view(a: &Module, b: &Module) -> bool {
    &&& same_list(a.axis_pts, b.axis_pts) &&& same_list(a.characteristic, b.characteristic) &&& same_list(a.measurement, b.measurement)
    &&& same_list(a.typedef_axis, b.typedef_axis) &&& same_list(a.typedef_characteristic, b.typedef_characteristic)
    &&& same_list(a.typedef_measurement, b.typedef_measurement)
}

// ---- conversion-table and UNIT usage
spec fn cm_tab_use(c: CompuMethod, n: Seq<char>) -> bool {
    ||| (c.compu_tab_ref is Some && c.compu_tab_ref->0.conversion_table@ == n)
    ||| (c.status_string_ref is Some && c.status_string_ref->0.conversion_table@ == n)
}
spec fn tab_used_pre(m: &Module, k: int, n: Seq<char>) -> bool {
    exists|i: int| 0 <= i < k && i < m.compu_method@.len() && cm_tab_use(#[trigger] m.compu_method@[i], n)
}
/// used_TAB(m): n is the target of a COMPU_TAB_REF or STATUS_STRING_REF of a COMPU_METHOD of m
spec fn tab_used(m: &Module, n: Seq<char>) -> bool { tab_used_pre(m, m.compu_method@.len() as int, n) }
spec fn unit_used_cm_pre(m: &Module, k: int, n: Seq<char>) -> bool {
    exists|i: int| 0 <= i < k && i < m.compu_method@.len() && (#[trigger] m.compu_method@[i]).ref_unit is Some && m.compu_method@[i].ref_unit->0.unit@ == n
}
spec fn unit_used_cm(m: &Module, n: Seq<char>) -> bool { unit_used_cm_pre(m, m.compu_method@.len() as int, n) }
spec fn unit_used_units(us: Seq<Unit>, k: int, n: Seq<char>) -> bool {
    exists|i: int| 0 <= i < k && i < us.len() && (#[trigger] us[i]).ref_unit is Some && us[i].ref_unit->0.unit@ == n
}
/// used_UNIT(m): n is the target of a REF_UNIT of a COMPU_METHOD or of a UNIT of m
spec fn unit_used(m: &Module, n: Seq<char>) -> bool { unit_used_cm(m, n) || unit_used_units(m.unit@, m.unit@.len() as int, n) }

spec fn eq_except_unit(a: &Module, b: &Module) -> bool {
    &&& cm_frame_untouched(a, b) &&& cm_objects_same(a, b) &&& a.compu_method == b.compu_method &&& a.compu_tab == b.compu_tab
    &&& a.compu_vtab == b.compu_vtab &&& a.compu_vtab_range == b.compu_vtab_range
}

// ---- Seq::filter facts (vstd defines filter by recursion on drop_last)
proof fn lemma_filter_mem<T>(s: Seq<T>, p: spec_fn(T) -> bool)
    ensures
        forall|x: T| #[trigger] s.filter(p).contains(x) <==> s.contains(x) && p(x),
        s.filter(p).len() <= s.len(),
    decreases s.len(),
{
    reveal_with_fuel(Seq::filter, 2);
    if s.len() > 0 {
        let s1 = s.drop_last();
        lemma_filter_mem(s1, p);
        assert(s =~= s1.push(s.last()));
        assert forall|x: T| #[trigger] s.filter(p).contains(x) <==> s.contains(x) && p(x) by {
            if s.contains(x) {
                let i = choose|i: int| 0 <= i < s.len() && s[i] == x;
                if i < s1.len() { assert(s1[i] == x); assert(s1.contains(x)); }
            }
            if s1.contains(x) {
                let i = choose|i: int| 0 <= i < s1.len() && s1[i] == x;
                assert(s[i] == x);
            }
            if p(s.last()) {
                let f1 = s1.filter(p);
                assert(s.filter(p) == f1.push(s.last()));
                if f1.push(s.last()).contains(x) {
                    let i = choose|i: int| 0 <= i < f1.push(s.last()).len() && f1.push(s.last())[i] == x;
                    if i < f1.len() { assert(f1[i] == x); assert(f1.contains(x)); }
                }
                if f1.contains(x) {
                    let i = choose|i: int| 0 <= i < f1.len() && f1[i] == x;
                    assert(f1.push(s.last())[i] == x);
                }
                if x == s.last() { assert(f1.push(s.last())[f1.len() as int] == x); assert(s[s.len() - 1] == x); }
            }
        }
    }
}

proof fn lemma_filter_filter<T>(s: Seq<T>, p: spec_fn(T) -> bool, q: spec_fn(T) -> bool)
    ensures
        s.filter(p).filter(q) == s.filter(|x: T| p(x) && q(x)),
    decreases s.len(),
{
    reveal_with_fuel(Seq::filter, 2);
    let pq = |x: T| p(x) && q(x);
    if s.len() > 0 {
        let s1 = s.drop_last();
        lemma_filter_filter(s1, p, q);
        if p(s.last()) {
            let f1 = s1.filter(p);
            assert(s.filter(p) == f1.push(s.last()));
            assert(f1.push(s.last()).drop_last() =~= f1);
        }
    }
}

proof fn lemma_filter_all<T>(s: Seq<T>, p: spec_fn(T) -> bool)
    requires
        s.filter(p).len() == s.len(),
    ensures
        s.filter(p) == s,
        forall|i: int| 0 <= i < s.len() ==> p(#[trigger] s[i]),
    decreases s.len(),
{
    reveal_with_fuel(Seq::filter, 2);
    if s.len() > 0 {
        let s1 = s.drop_last();
        lemma_filter_mem(s1, p);
        if p(s.last()) {
            lemma_filter_all(s1, p);
            assert(s =~= s1.push(s.last()));
        }
    } else {
        assert(s.filter(p) =~= s);
    }
}

proof fn lemma_filter_all_true<T>(s: Seq<T>, p: spec_fn(T) -> bool)
    requires
        forall|i: int| 0 <= i < s.len() ==> p(#[trigger] s[i]),
    ensures
        s.filter(p) == s,
    decreases s.len(),
{
    reveal_with_fuel(Seq::filter, 2);
    if s.len() > 0 {
        let s1 = s.drop_last();
        assert forall|i: int| 0 <= i < s1.len() implies p(#[trigger] s1[i]) by { assert(s1[i] == s[i]); }
        lemma_filter_all_true(s1, p);
        assert(p(s[s.len() - 1]));
        assert(s =~= s1.push(s.last()));
    } else {
        assert(s.filter(p) =~= s);
    }
}

/// "removed UNITs are referenced neither by a COMPU_METHOD nor by a current UNIT" (invariant of the UNIT fixed-point loop)
spec fn units_removed_unreferenced(m0: &Module, old: ItemList<Unit>, cur: ItemList<Unit>) -> bool {
    forall|n: Seq<char>| old.has(n) && !(#[trigger] cur.has(n)) ==> !unit_used_cm(m0, n) && !unit_used_units(cur@, cur@.len() as int, n)
}

/// one round of the UNIT fixed-point loop: `new` = `cur` filtered by "referenced by a COMPU_METHOD or by a UNIT of cur"
proof fn lemma_units_step(m0: &Module, old: ItemList<Unit>, cur: ItemList<Unit>, new: ItemList<Unit>, pacc: spec_fn(Unit) -> bool, q: spec_fn(Unit) -> bool) -> (pn: spec_fn(Unit) -> bool)
    requires
        cur@ == old@.filter(pacc),
        new@ == cur@.filter(q),
        forall|u: Unit| #[trigger] q(u) <==> unit_used_cm(m0, u.name@) || unit_used_units(cur@, cur@.len() as int, u.name@),
        units_removed_unreferenced(m0, old, cur),
    ensures
        new@ == old@.filter(pn),
        units_removed_unreferenced(m0, old, new),
{
    let pn = |u: Unit| pacc(u) && q(u);
    lemma_filter_filter(old@, pacc, q);
    lemma_filter_mem(cur@, q);
    assert forall|n: Seq<char>| old.has(n) && !(#[trigger] new.has(n)) implies !unit_used_cm(m0, n) && !unit_used_units(new@, new@.len() as int, n) by {
        if unit_used_units(new@, new@.len() as int, n) {
            let i = choose|i: int| 0 <= i < new@.len() && (#[trigger] new@[i]).ref_unit is Some && new@[i].ref_unit->0.unit@ == n;
            assert(new@.contains(new@[i]));
            assert(cur@.contains(new@[i]));
            let j = choose|j: int| 0 <= j < cur@.len() && cur@[j] == new@[i];
            assert(cur@[j].ref_unit is Some && cur@[j].ref_unit->0.unit@ == n);
            assert(unit_used_units(cur@, cur@.len() as int, n));
        }
        if cur.has(n) {
            let i = choose|i: int| 0 <= i < cur@.len() && (#[trigger] cur@[i]).spec_name() == n;
            assert(cur@.contains(cur@[i]));
            if q(cur@[i]) {
                assert(new@.contains(cur@[i]));
                let j = choose|j: int| 0 <= j < new@.len() && new@[j] == cur@[i];
                assert(new@[j].spec_name() == n);
                assert(new.has(n));
            }
        }
    }
    pn
}

/// exit of the UNIT fixed-point loop: kept iff referenced by a COMPU_METHOD or by a remaining UNIT
proof fn lemma_units_final(m0: &Module, old: ItemList<Unit>, fin: ItemList<Unit>, pacc: spec_fn(Unit) -> bool)
    requires
        fin@ == old@.filter(pacc),
        units_removed_unreferenced(m0, old, fin),
        forall|i: int| 0 <= i < fin@.len() ==> unit_used_cm(m0, (#[trigger] fin@[i]).name@) || unit_used_units(fin@, fin@.len() as int, fin@[i].name@),
    ensures
        forall|n: Seq<char>| #[trigger] fin.has(n) <==> old.has(n) && (unit_used_cm(m0, n) || unit_used_units(fin@, fin@.len() as int, n)),
{
    lemma_filter_mem(old@, pacc);
    assert forall|n: Seq<char>| #[trigger] fin.has(n) <==> old.has(n) && (unit_used_cm(m0, n) || unit_used_units(fin@, fin@.len() as int, n)) by {
        if fin.has(n) {
            let i = choose|i: int| 0 <= i < fin@.len() && (#[trigger] fin@[i]).spec_name() == n;
            assert(fin@.contains(fin@[i]));
            assert(old@.contains(fin@[i]));
            let j = choose|j: int| 0 <= j < old@.len() && old@[j] == fin@[i];
            assert(old@[j].spec_name() == n);
            assert(old.has(n));
        }
    }
}

// ---- step 4: dangling COMPU_TAB_REF / REF_UNIT of COMPU_METHODs are dropped
spec fn tab_exists(m: &Module, n: Seq<char>) -> bool { m.compu_tab.has(n) || m.compu_vtab.has(n) || m.compu_vtab_range.has(n) }
spec fn cm_refs_fixed(m0: &Module, a: CompuMethod, b: CompuMethod) -> bool {
    &&& a.name == b.name
    &&& a.status_string_ref == b.status_string_ref
    &&& a.compu_tab_ref == (if b.compu_tab_ref is Some && tab_exists(m0, b.compu_tab_ref->0.conversion_table@) { b.compu_tab_ref } else { None })
    &&& a.ref_unit == (if b.ref_unit is Some && m0.unit.has(b.ref_unit->0.unit@) { b.ref_unit } else { None })
}

// R11: statement outlining of the `keys().chain().chain().cloned().collect()` expression of
// remove_invalid_sub_element_refs (Verus has no specification for Iterator::chain / cloned / collect).
// Assumed spec: the set of the names of the three conversion-table lists.
#[verifier::external_body]
fn existing_compu_tab_names(module: &Module) -> (r: HashSet<String>)
    requires
        module.compu_tab.wf(), module.compu_vtab.wf(), module.compu_vtab_range.wf(),
    ensures
        forall|s: String| #[trigger] r@.contains(s) <==> tab_exists(module, s@),
{
    module
        .compu_tab
        .keys()
        .chain(module.compu_vtab.keys())
        .chain(module.compu_vtab_range.keys())
        .cloned()
        .collect::<HashSet<String>>()
}

// ---- composition (compu_methods::cleanup)
/// a name-determined predicate filters a name-indexed list: membership of the result
proof fn lemma_has_filter<T: A2lObjectName>(old: ItemList<T>, new: ItemList<T>, p: spec_fn(T) -> bool, pn: spec_fn(Seq<char>) -> bool)
    requires
        new@ == old@.filter(p),
        forall|x: T| #[trigger] p(x) <==> pn(x.spec_name()),
    ensures
        forall|n: Seq<char>| #[trigger] new.has(n) <==> old.has(n) && pn(n),
{
    lemma_filter_mem(old@, p);
    assert forall|n: Seq<char>| #[trigger] new.has(n) <==> old.has(n) && pn(n) by {
        if new.has(n) {
            let i = choose|i: int| 0 <= i < new@.len() && (#[trigger] new@[i]).spec_name() == n;
            assert(new@.contains(new@[i]));
            assert(old@.contains(new@[i]));
            let j = choose|j: int| 0 <= j < old@.len() && old@[j] == new@[i];
            assert(old@[j].spec_name() == n);
        }
        if old.has(n) && pn(n) {
            let i = choose|i: int| 0 <= i < old@.len() && (#[trigger] old@[i]).spec_name() == n;
            assert(old@.contains(old@[i]));
            assert(new@.contains(old@[i]));
            let j = choose|j: int| 0 <= j < new@.len() && new@[j] == old@[i];
            assert(new@[j].spec_name() == n);
        }
    }
}

/// cm_used only looks at the views of the object lists and of `instance`
proof fn lemma_cm_used_cong(a: &Module, b: &Module, n: Seq<char>)
    requires
        a.axis_pts@ == b.axis_pts@, a.characteristic@ == b.characteristic@, a.measurement@ == b.measurement@,
        a.typedef_axis@ == b.typedef_axis@, a.typedef_characteristic@ == b.typedef_characteristic@,
        a.typedef_measurement@ == b.typedef_measurement@, a.instance@ == b.instance@,
    ensures
        cm_used(a, n) == cm_used(b, n),
{
}

/// the COMPU_METHOD list after cleanup: a sub-list of the old one (order preserved) whose elements differ from the
/// originals only by dropped (dangling) COMPU_TAB_REF / REF_UNIT
spec fn cm_sublist(fin: Seq<CompuMethod>, kept: Seq<CompuMethod>) -> bool {
    &&& fin.len() == kept.len()
    &&& forall|i: int| 0 <= i < kept.len() ==> {
        &&& (#[trigger] fin[i]).name == kept[i].name
        &&& fin[i].status_string_ref == kept[i].status_string_ref
        &&& (fin[i].compu_tab_ref is None || fin[i].compu_tab_ref == kept[i].compu_tab_ref)
        &&& (fin[i].ref_unit is None || fin[i].ref_unit == kept[i].ref_unit)
    }
}

spec fn cm_lists_wf(m: &Module) -> bool {
    &&& m.compu_method.wf() &&& m.compu_tab.wf() &&& m.compu_vtab.wf() &&& m.compu_vtab_range.wf() &&& m.unit.wf()
}

/// after step 3 and step 4: usage of conversion tables / units by the repaired COMPU_METHODs
proof fn lemma_step4_usage(m3: &Module, fin: &Module)
    requires
        fin.compu_method@.len() == m3.compu_method@.len(),
        forall|i: int| 0 <= i < m3.compu_method@.len() ==> cm_refs_fixed(m3, #[trigger] fin.compu_method@[i], m3.compu_method@[i]),
    ensures
        forall|n: Seq<char>| tab_exists(m3, n) ==> (#[trigger] tab_used(fin, n) <==> tab_used(m3, n)),
        forall|n: Seq<char>| #[trigger] tab_used(fin, n) ==> tab_used(m3, n),
        forall|n: Seq<char>| m3.unit.has(n) ==> (#[trigger] unit_used_cm(fin, n) <==> unit_used_cm(m3, n)),
        forall|n: Seq<char>| #[trigger] unit_used_cm(fin, n) ==> unit_used_cm(m3, n),
{
    assert forall|n: Seq<char>| #[trigger] tab_used(fin, n) implies tab_used(m3, n) by {
        let i = choose|i: int| 0 <= i < fin.compu_method@.len() && cm_tab_use(#[trigger] fin.compu_method@[i], n);
        assert(cm_refs_fixed(m3, fin.compu_method@[i], m3.compu_method@[i]));
        assert(cm_tab_use(m3.compu_method@[i], n));
    }
    assert forall|n: Seq<char>| tab_exists(m3, n) && tab_used(m3, n) implies #[trigger] tab_used(fin, n) by {
        let i = choose|i: int| 0 <= i < m3.compu_method@.len() && cm_tab_use(#[trigger] m3.compu_method@[i], n);
        assert(cm_refs_fixed(m3, fin.compu_method@[i], m3.compu_method@[i]));
        assert(cm_tab_use(fin.compu_method@[i], n));
    }
    assert forall|n: Seq<char>| #[trigger] unit_used_cm(fin, n) implies unit_used_cm(m3, n) by {
        let i = choose|i: int| 0 <= i < fin.compu_method@.len() && (#[trigger] fin.compu_method@[i]).ref_unit is Some && fin.compu_method@[i].ref_unit->0.unit@ == n;
        assert(cm_refs_fixed(m3, fin.compu_method@[i], m3.compu_method@[i]));
        assert(m3.compu_method@[i].ref_unit is Some && m3.compu_method@[i].ref_unit->0.unit@ == n);
    }
    assert forall|n: Seq<char>| m3.unit.has(n) && unit_used_cm(m3, n) implies #[trigger] unit_used_cm(fin, n) by {
        let i = choose|i: int| 0 <= i < m3.compu_method@.len() && (#[trigger] m3.compu_method@[i]).ref_unit is Some && m3.compu_method@[i].ref_unit->0.unit@ == n;
        assert(cm_refs_fixed(m3, fin.compu_method@[i], m3.compu_method@[i]));
        assert(fin.compu_method@[i].ref_unit is Some && fin.compu_method@[i].ref_unit->0.unit@ == n);
    }
}

/// generic part of the invariant of a `for x in &mut list` loop (README recipe)
spec fn iter_mut_inv<T>(snap: Seq<&mut T>, hist: Seq<&mut T>, rem: Seq<&mut T>, idx: int, k: int, n: int, old: Seq<T>) -> bool {
    &&& k == idx && n == snap.len() && n == old.len() && rem.len() == n - k
    &&& rem =~= snap.skip(idx)
    &&& forall|j: int| 0 <= j < idx ==> hist[j] == snap[j]
    &&& forall|j: int| 0 <= j < n ==> mut_ref_current(#[trigger] snap[j]) == old[j]
}

/// the lists that no step of compu_methods::cleanup may touch (structural equality of the projected fields)
spec fn cm_frame_untouched(a: &Module, b: &Module) -> bool {
    &&& a.blob == b.blob &&& a.function == b.function &&& a.group == b.group &&& a.instance == b.instance
    &&& a.mod_common == b.mod_common &&& a.record_layout == b.record_layout &&& a.typedef_blob == b.typedef_blob
    &&& a.typedef_structure == b.typedef_structure &&& a.user_rights == b.user_rights
}
spec fn cm_objects_same(a: &Module, b: &Module) -> bool {
    &&& a.axis_pts == b.axis_pts &&& a.characteristic == b.characteristic &&& a.measurement == b.measurement
    &&& a.typedef_axis == b.typedef_axis &&& a.typedef_characteristic == b.typedef_characteristic
    &&& a.typedef_measurement == b.typedef_measurement
}
spec fn cm_helpers_same(a: &Module, b: &Module) -> bool {
    &&& a.compu_method == b.compu_method &&& a.compu_tab == b.compu_tab &&& a.compu_vtab == b.compu_vtab
    &&& a.compu_vtab_range == b.compu_vtab_range &&& a.unit == b.unit
}
spec fn cm_objects_wf(m: &Module) -> bool {
    &&& m.axis_pts.wf() &&& m.characteristic.wf() &&& m.measurement.wf() &&& m.typedef_axis.wf()
    &&& m.typedef_characteristic.wf() &&& m.typedef_measurement.wf()
}

pub mod compu_methods {
use super::*;
broadcast use group_strkeys;
'''

# ---- step 1
FIXED = "--fixed" in sys.argv
LISTS1 = [  # (loop no, var, field, Type, fixed fn, has nested axis_descr loop)
    (1, "axis_pts", "axis_pts", "AxisPts", "axis_pts_fixed"),
    (2, "characteristic", "characteristic", "Characteristic", "characteristic_fixed"),
    (4, "measurement", "measurement", "Measurement", "measurement_fixed"),
    (5, "typedef_axis", "typedef_axis", "TypedefAxis", "typedef_axis_fixed"),
    (6, "typedef_characteristic", "typedef_characteristic", "TypedefCharacteristic", "typedef_characteristic_fixed"),
    (8 if FIXED else 7, "typedef_measurement", "typedef_measurement", "TypedefMeasurement", "typedef_measurement_fixed"),
]
def step1():
    o = []
    o.append("//@extract a2lfile/src/cleanup/compu_methods.rs fn remove_invalid_compumethod_refs")
    for n in range(1, 9 if FIXED else 8):
        o.append("//@ itername %d it" % n if n not in ((3, 7) if FIXED else (3,)) else "//@ itername %d it2" % n)
    o.append("""//@ spec
    requires
        old(module).compu_method.wf(),
        cm_objects_wf(old(module)),
    ensures
        // every `conversion` site of every object/typedef holds fixc(old value); nothing else of the element changes
        final(module).axis_pts@.len() == old(module).axis_pts@.len(),
        forall|i: int| 0 <= i < old(module).axis_pts@.len() ==> axis_pts_fixed(old(module), #[trigger] final(module).axis_pts@[i], old(module).axis_pts@[i]),
        final(module).characteristic@.len() == old(module).characteristic@.len(),
        forall|i: int| 0 <= i < old(module).characteristic@.len() ==> characteristic_fixed(old(module), #[trigger] final(module).characteristic@[i], old(module).characteristic@[i]),
        final(module).measurement@.len() == old(module).measurement@.len(),
        forall|i: int| 0 <= i < old(module).measurement@.len() ==> measurement_fixed(old(module), #[trigger] final(module).measurement@[i], old(module).measurement@[i]),
        final(module).typedef_axis@.len() == old(module).typedef_axis@.len(),
        forall|i: int| 0 <= i < old(module).typedef_axis@.len() ==> typedef_axis_fixed(old(module), #[trigger] final(module).typedef_axis@[i], old(module).typedef_axis@[i]),
        final(module).typedef_characteristic@.len() == old(module).typedef_characteristic@.len(),
        forall|i: int| 0 <= i < old(module).typedef_characteristic@.len() ==> typedef_characteristic_fixed(old(module), #[trigger] final(module).typedef_characteristic@[i], old(module).typedef_characteristic@[i]),
        final(module).typedef_measurement@.len() == old(module).typedef_measurement@.len(),
        forall|i: int| 0 <= i < old(module).typedef_measurement@.len() ==> typedef_measurement_fixed(old(module), #[trigger] final(module).typedef_measurement@[i], old(module).typedef_measurement@[i]),
        cm_objects_wf(final(module)),
        cm_helpers_same(final(module), old(module)),
        cm_frame_untouched(final(module), old(module)),
//@ body-start
    let ghost m0 = *module;
    let ghost mut k: int = 0;
    let ghost mut n: int = 0;""")
    done = []  # fields already processed
    for (ln, var, field, ty, fx) in LISTS1:
        o.append("//@ before-loop %d" % ln)
        o.append("    proof { k = 0; n = module.%s@.len() as int; }" % field)
        o.append("    let ghost m_%d = *module;" % ln)
        o.append("//@ loop %d" % ln)
        o.append("        invariant")
        o.append("            m0.compu_method.wf(), module.compu_method == m0.compu_method,")
        o.append("            iter_mut_inv(it.snapshot@.remaining(), it.history@, it.iter.remaining(), it.index@ as int, k, n, m0.%s@)," % field)
        o.append("            forall|j: int| 0 <= j < it.index@ ==> %s(&m0, mut_ref_future(#[trigger] it.snapshot@.remaining()[j]), m0.%s@[j])," % (fx, field))
        o.append("//@ loop-end %d" % ln)
        o.append("        proof { k = k + 1; }")
        if ln == 2:
            o.append("""//@ before-loop 3
        let ghost c0 = *characteristic;
        let ghost mut k2: int = 0;
        let ghost n2: int = characteristic.axis_descr@.len() as int;
        proof { assert(c0 == m0.characteristic@[k]); }
//@ loop 3
            invariant
                m0.compu_method.wf(), module.compu_method == m0.compu_method,
                characteristic.name == c0.name, characteristic.deposit == c0.deposit, characteristic.function_list == c0.function_list,
                characteristic.conversion == c0.conversion,
                iter_mut_inv(it2.snapshot@.remaining(), it2.history@, it2.iter.remaining(), it2.index@ as int, k2, n2, c0.axis_descr@),
                forall|j: int| 0 <= j < it2.index@ ==> mut_ref_future(#[trigger] it2.snapshot@.remaining()[j]).conversion@ == fixc(&m0, c0.axis_descr@[j].conversion@),
//@ loop-end 3
            proof { k2 = k2 + 1; }
//@ after-loop 3
        proof { assert(axis_descrs_fixed(&m0, characteristic.axis_descr@, c0.axis_descr@)); }""")
        if ln == 6 and FIXED:
            o.append("""//@ before-loop 7
        let ghost c0 = *typedef_characteristic;
        let ghost mut k2: int = 0;
        let ghost n2: int = typedef_characteristic.axis_descr@.len() as int;
        proof { assert(c0 == m0.typedef_characteristic@[k]); }
//@ loop 7
            invariant
                m0.compu_method.wf(), module.compu_method == m0.compu_method,
                typedef_characteristic.name == c0.name, typedef_characteristic.record_layout == c0.record_layout,
                typedef_characteristic.conversion == c0.conversion,
                iter_mut_inv(it2.snapshot@.remaining(), it2.history@, it2.iter.remaining(), it2.index@ as int, k2, n2, c0.axis_descr@),
                forall|j: int| 0 <= j < it2.index@ ==> mut_ref_future(#[trigger] it2.snapshot@.remaining()[j]).conversion@ == fixc(&m0, c0.axis_descr@[j].conversion@),
//@ loop-end 7
            proof { k2 = k2 + 1; }
//@ after-loop 7
        proof { assert(axis_descrs_fixed(&m0, typedef_characteristic.axis_descr@, c0.axis_descr@)); }""")
    o.append("//@end\n")
    return "\n".join(o)

# ---- step 2
def step2():
    o = []
    o.append("//@extract a2lfile/src/cleanup/compu_methods.rs fn remove_unused_compumethods")
    # loops (unpatched): 1 ap, 2 ch, 3 ch.axis_descr, 4 me, 5 ta, 6 tc, 7 tm, 8 compu_method(ssr)
    # loops (patched):   1 ap, 2 ch, 3 ch.axis_descr, 4 me, 5 ta, 6 tc, 7 tc.axis_descr, 8 tm, 9 instance, 10 overwrite
    if FIXED:
        names = {1:"it",2:"it",3:"it2",4:"it",5:"it",6:"it",7:"it2",8:"it",9:"it",10:"it2"}
    else:
        names = {1:"it",2:"it",3:"it2",4:"it",5:"it",6:"it",7:"it",8:"it"}
    for n_, g in names.items():
        o.append("//@ itername %d %s" % (n_, g))
    o.append('//@ rewrite R14 1 "|item| used_compumethods.contains(&item.name)" => "|item: &mut CompuMethod| -> (b: bool) ensures *final(item) == *old(item), b == used_compumethods@.contains(old(item).name) { used_compumethods.contains(&item.name) }"')
    o.append("""//@ spec
    requires
        old(module).compu_method.wf(),
        cm_objects_wf(old(module)),
    ensures
        // a COMPU_METHOD is kept iff its name occurs at a COMPU_METHOD reference site; order preserved
        final(module).compu_method@ == old(module).compu_method@.filter(|c: CompuMethod| cm_used(old(module), c.name@)),
        final(module).compu_method.wf(),
        cm_objects_same_view(final(module), old(module)),
        final(module).compu_tab == old(module).compu_tab, final(module).compu_vtab == old(module).compu_vtab,
        final(module).compu_vtab_range == old(module).compu_vtab_range, final(module).unit == old(module).unit,
        cm_frame_untouched(final(module), old(module)),
//@ body-start
    let ghost m0 = *module;
    let ghost mut k: int = 0;
    let ghost mut n: int = 0;""")
    def mutloop(ln, field, stage, site, extra_inv="", end_extra=""):
        o.append("//@ before-loop %d" % ln)
        o.append("    proof { k = 0; n = module.%s@.len() as int; }" % field)
        o.append("//@ loop %d" % ln)
        o.append("        invariant")
        o.append("            iter_mut_inv(it.snapshot@.remaining(), it.history@, it.iter.remaining(), it.index@ as int, k, n, m0.%s@)," % field)
        o.append("            forall|j: int| 0 <= j < it.index@ ==> mut_ref_future(#[trigger] it.snapshot@.remaining()[j]) == m0.%s@[j]," % field)
        o.append("            forall|s: String| #[trigger] %s@.contains(s) <==> cm_used_upto(&m0, %d, s@) || %s(&m0, it.index@ as int, s@)," % ("used_compumethods", stage, site))
        if extra_inv: o.append(extra_inv)
        o.append("//@ loop-end %d" % ln)
        o.append("        proof {")
        o.append("            assert forall|s: String| #[trigger] used_compumethods@.contains(s) <==> cm_used_upto(&m0, %d, s@) || %s(&m0, k + 1, s@) by {" % (stage, site))
        o.append(end_extra or "                if s@ == m0.%s@[k].conversion@ { assert(m0.%s@[k].conversion@ == s@); }" % (field, field))
        o.append("            }")
        o.append("            k = k + 1;")
        o.append("        }")
        o.append("//@ after-loop %d" % ln)
        o.append("    proof { assert(module.%s@ =~= m0.%s@); assert(same_list(module.%s, m0.%s)); }" % (field, field, field, field))
    mutloop(1, "axis_pts", 0, "site_ap")
    # characteristic with nested shared loop over axis_descr
    mutloop(2, "characteristic", 1, "site_ch", end_extra="""                let c = m0.characteristic@[k];
                if ch_use(c, s@) { assert(ch_use(m0.characteristic@[k], s@)); }""")
    o.append("""//@ before-loop 3
        let ghost c0 = *characteristic;
        proof { assert(c0 == m0.characteristic@[k]); }
//@ loop 3
            invariant
                *characteristic == c0,
                it2.snapshot@.remaining() == c0.axis_descr@.map_values(|x: AxisDescr| &x),
                forall|s: String| #[trigger] used_compumethods@.contains(s) <==> cm_used_upto(&m0, 1, s@) || site_ch(&m0, k, s@) || ads_use(c0.axis_descr@, it2.index@ as int, s@),
//@ loop-end 3
            proof {
                let k2 = it2.index@ as int;
                assert(*axis_descr == c0.axis_descr@[k2]);
                assert forall|s: String| #[trigger] used_compumethods@.contains(s) <==> cm_used_upto(&m0, 1, s@) || site_ch(&m0, k, s@) || ads_use(c0.axis_descr@, k2 + 1, s@) by {
                    if s@ == c0.axis_descr@[k2].conversion@ { assert(c0.axis_descr@[k2].conversion@ == s@); }
                }
            }""")
    mutloop(4, "measurement", 2, "site_me")
    mutloop(5, "typedef_axis", 3, "site_ta")
    if FIXED:
        mutloop(6, "typedef_characteristic", 4, "site_tc", end_extra="""                let c = m0.typedef_characteristic@[k];
                if tc_use(c, s@) { assert(tc_use(m0.typedef_characteristic@[k], s@)); }""")
        o.append("""//@ before-loop 7
        let ghost c0 = *typedef_characteristic;
        proof { assert(c0 == m0.typedef_characteristic@[k]); }
//@ loop 7
            invariant
                *typedef_characteristic == c0,
                it2.snapshot@.remaining() == c0.axis_descr@.map_values(|x: AxisDescr| &x),
                forall|s: String| #[trigger] used_compumethods@.contains(s) <==> cm_used_upto(&m0, 4, s@) || site_tc(&m0, k, s@) || ads_use(c0.axis_descr@, it2.index@ as int, s@),
//@ loop-end 7
            proof {
                let k2 = it2.index@ as int;
                assert(*axis_descr == c0.axis_descr@[k2]);
                assert forall|s: String| #[trigger] used_compumethods@.contains(s) <==> cm_used_upto(&m0, 4, s@) || site_tc(&m0, k, s@) || ads_use(c0.axis_descr@, k2 + 1, s@) by {
                    if s@ == c0.axis_descr@[k2].conversion@ { assert(c0.axis_descr@[k2].conversion@ == s@); }
                }
            }""")
        mutloop(8, "typedef_measurement", 5, "site_tm")
        o.append("""//@ loop 9
        invariant
            *module == m_9,
            it.snapshot@.remaining() == m0.instance@.map_values(|x: Instance| &x),
            forall|s: String| #[trigger] used_compumethods@.contains(s) <==> cm_used_upto(&m0, 6, s@) || site_in(&m0, it.index@ as int, s@),
//@ before-loop 9
    let ghost m_9 = *module;
    proof { assert(m_9.instance == m0.instance); }
//@ before-loop 10
        let ghost ki = it.index@ as int;
        let ghost i0 = *instance;
        proof { assert(i0 == m0.instance@[ki]); }
//@ loop 10
            invariant
                *module == m_9,
                it2.snapshot@.remaining() == i0.overwrite@.map_values(|x: Overwrite| &x),
                forall|s: String| #[trigger] used_compumethods@.contains(s) <==> cm_used_upto(&m0, 6, s@) || site_in(&m0, ki, s@) || ow_use(i0.overwrite@, it2.index@ as int, s@),
//@ loop-end 10
            proof {
                let k2 = it2.index@ as int;
                assert(*overwrite == i0.overwrite@[k2]);
                assert forall|s: String| #[trigger] used_compumethods@.contains(s) <==> cm_used_upto(&m0, 6, s@) || site_in(&m0, ki, s@) || ow_use(i0.overwrite@, k2 + 1, s@) by {
                    if i0.overwrite@[k2].conversion is Some && s@ == i0.overwrite@[k2].conversion->0.name@ { assert(i0.overwrite@[k2].conversion->0.name@ == s@); }
                }
            }
//@ loop-end 9
        proof {
            assert forall|s: String| #[trigger] used_compumethods@.contains(s) <==> cm_used_upto(&m0, 6, s@) || site_in(&m0, ki + 1, s@) by {
                if ow_use(i0.overwrite@, i0.overwrite@.len() as int, s@) { assert(ow_use(m0.instance@[ki].overwrite@, m0.instance@[ki].overwrite@.len() as int, s@)); }
            }
        }""")
    else:
        # unpatched tree: the TYPEDEF_CHARACTERISTIC loop does not look at axis_descr (DEFECT D2: fails at loop end),
        # the COMPU_METHOD loop inserts STATUS_STRING_REF targets (DEFECT D1: fails at loop end), no INSTANCE loop (DEFECT D3)
        mutloop(6, "typedef_characteristic", 4, "site_tc", end_extra="""                let c = m0.typedef_characteristic@[k];
                if tc_use(c, s@) { assert(tc_use(m0.typedef_characteristic@[k], s@)); }""")
        mutloop(7, "typedef_measurement", 5, "site_tm")
        o.append("""//@ before-loop 8
    proof { k = 0; n = module.compu_method@.len() as int; }
//@ loop 8
        invariant
            iter_mut_inv(it.snapshot@.remaining(), it.history@, it.iter.remaining(), it.index@ as int, k, n, m0.compu_method@),
            forall|j: int| 0 <= j < it.index@ ==> mut_ref_future(#[trigger] it.snapshot@.remaining()[j]) == m0.compu_method@[j],
            // C10: STATUS_STRING_REF names a conversion table, not a COMPU_METHOD: this loop must not add anything
            forall|s: String| #[trigger] used_compumethods@.contains(s) <==> cm_used_upto(&m0, 6, s@),
//@ loop-end 8
        proof { k = k + 1; }""")
    o.append("""//@ before 1 module
    proof {
        assert forall|s: String| #[trigger] used_compumethods@.contains(s) <==> cm_used(&m0, s@) by {}
        assert(module.compu_method@ == m0.compu_method@);
    }
    let ghost p = |c: CompuMethod| cm_used(&m0, c.name@);
//@ after 1 .retain(
    proof {
        assert(module.compu_method@ == m0.compu_method@.filter(p));
    }
//@end
""")
    return "\n".join(o)

# ---- step 3
def step3():
    o = []
    o.append("//@extract a2lfile/src/cleanup/compu_methods.rs fn remove_unused_sub_elements")
    o.append("//@ itername 1 it")
    if FIXED:
        o.append("//@ itername 3 it")
    else:
        o.append("//@ itername 2 it")
    for fld, ty in (("compu_tab", "CompuTab"), ("compu_vtab", "CompuVtab"), ("compu_vtab_range", "CompuVtabRange")):
        o.append('//@ rewrite R14 1 ".%s\\n        .retain(|item| used_compu_tabs.contains(&item.name))" => ".%s\\n        .retain(|item: &mut %s| -> (b: bool) ensures *final(item) == *old(item), b == used_compu_tabs@.contains(old(item).name) { used_compu_tabs.contains(&item.name) })"' % (fld, fld, ty))
    if FIXED:
        o.append('//@ rewrite R14 1 "|item| used_units.contains(&item.name) || used_by_units.contains(&item.name)" => "|item: &mut Unit| -> (b: bool) ensures *final(item) == *old(item), b == (used_units@.contains(old(item).name) || used_by_units@.contains(old(item).name)) { used_units.contains(&item.name) || used_by_units.contains(&item.name) }"')
    else:
        o.append('//@ rewrite R14 1 "|item| used_units.contains(&item.name)" => "|item: &mut Unit| -> (b: bool) ensures *final(item) == *old(item), b == used_units@.contains(old(item).name) { used_units.contains(&item.name) }"')
    o.append("""//@ spec
    requires
        old(module).compu_tab.wf(), old(module).compu_vtab.wf(), old(module).compu_vtab_range.wf(), old(module).unit.wf(),
    ensures
        // conversion tables: kept iff target of a COMPU_TAB_REF / STATUS_STRING_REF of a (remaining) COMPU_METHOD
        final(module).compu_tab@ == old(module).compu_tab@.filter(|t: CompuTab| tab_used(old(module), t.name@)),
        final(module).compu_vtab@ == old(module).compu_vtab@.filter(|t: CompuVtab| tab_used(old(module), t.name@)),
        final(module).compu_vtab_range@ == old(module).compu_vtab_range@.filter(|t: CompuVtabRange| tab_used(old(module), t.name@)),
        final(module).compu_tab.wf(), final(module).compu_vtab.wf(), final(module).compu_vtab_range.wf(),
        // UNITs: the result is a sub-list (order and elements preserved) and a UNIT is kept iff it is the target of
        // a REF_UNIT of a COMPU_METHOD or of a REMAINING UNIT
        exists|p: spec_fn(Unit) -> bool| final(module).unit@ == old(module).unit@.filter(p),
        final(module).unit.wf(),
        forall|n: Seq<char>| #[trigger] final(module).unit.has(n) <==> old(module).unit.has(n) && unit_used(final(module), n),
        final(module).compu_method == old(module).compu_method,
        cm_objects_same(final(module), old(module)),
        cm_frame_untouched(final(module), old(module)),
//@ body-start
    let ghost m0 = *module;
//@ loop 1
        invariant
            *module == m0,
            it.snapshot@.remaining() == m0.compu_method@.map_values(|x: CompuMethod| &x),
            forall|s: String| #[trigger] used_compu_tabs@.contains(s) <==> tab_used_pre(&m0, it.index@ as int, s@),
            forall|s: String| #[trigger] used_units@.contains(s) <==> unit_used_cm_pre(&m0, it.index@ as int, s@),
//@ loop-end 1
        proof {
            let k = it.index@ as int;
            assert(*compu_method == m0.compu_method@[k]);
            assert forall|s: String| #[trigger] used_compu_tabs@.contains(s) <==> tab_used_pre(&m0, k + 1, s@) by {
                if cm_tab_use(m0.compu_method@[k], s@) { assert(cm_tab_use(m0.compu_method@[k], s@)); }
            }
            assert forall|s: String| #[trigger] used_units@.contains(s) <==> unit_used_cm_pre(&m0, k + 1, s@) by {
                if m0.compu_method@[k].ref_unit is Some && m0.compu_method@[k].ref_unit->0.unit@ == s@ { assert(m0.compu_method@[k].ref_unit->0.unit@ == s@); }
            }
        }
//@ after-loop 1
    let ghost pt = |t: CompuTab| tab_used(&m0, t.name@);
    let ghost pv = |t: CompuVtab| tab_used(&m0, t.name@);
    let ghost pr = |t: CompuVtabRange| tab_used(&m0, t.name@);
    proof {
        assert forall|s: String| #[trigger] used_compu_tabs@.contains(s) <==> tab_used(&m0, s@) by {}
    }
//@ after 1 .retain(
    proof { assert(module.compu_tab@ == m0.compu_tab@.filter(pt)); }
//@ after 2 .retain(
    proof { assert(module.compu_vtab@ == m0.compu_vtab@.filter(pv)); }
//@ after 3 .retain(
    proof { assert(module.compu_vtab_range@ == m0.compu_vtab_range@.filter(pr)); }""")
    if FIXED:
        o.append(UNITS_FIXED)
    else:
        o.append(UNITS_ORIG)
    o.append("//@end\n")
    return "\n".join(o)

UNITS_FIXED = """//@ before-loop 2
    let ghost m2 = *module;
    let ghost mut pacc: spec_fn(Unit) -> bool = |u: Unit| true;
    proof {
        assert forall|s: String| #[trigger] used_units@.contains(s) <==> unit_used_cm(&m0, s@) by {}
        lemma_filter_all_true(m0.unit@, pacc);
    }
//@ loop 2
        invariant
            eq_except_unit(module, &m2), m2.compu_method == m0.compu_method,
            m0.unit.wf(), module.unit.wf(),
            module.unit@ == m0.unit@.filter(pacc),
            forall|s: String| #[trigger] used_units@.contains(s) <==> unit_used_cm(&m0, s@),
            units_removed_unreferenced(&m0, m0.unit, module.unit),
        ensures
            forall|i: int| 0 <= i < module.unit@.len() ==> unit_used_cm(&m0, (#[trigger] module.unit@[i]).name@) || unit_used_units(module.unit@, module.unit@.len() as int, module.unit@[i].name@),
        decreases module.unit@.len(),
//@ before-loop 3
        let ghost cur = module.unit;
//@ loop 3
            invariant
                module.unit == cur, eq_except_unit(module, &m2),
                it.snapshot@.remaining() == cur@.map_values(|x: Unit| &x),
                forall|s: String| #[trigger] used_by_units@.contains(s) <==> unit_used_units(cur@, it.index@ as int, s@),
//@ loop-end 3
            proof {
                let k = it.index@ as int;
                assert(*unit == cur@[k]);
                assert forall|s: String| #[trigger] used_by_units@.contains(s) <==> unit_used_units(cur@, k + 1, s@) by {
                    if cur@[k].ref_unit is Some && cur@[k].ref_unit->0.unit@ == s@ { assert(cur@[k].ref_unit->0.unit@ == s@); }
                }
            }
//@ after-loop 3
        let ghost q = |u: Unit| unit_used_cm(&m0, u.name@) || unit_used_units(cur@, cur@.len() as int, u.name@);
//@ after 4 .retain(
        proof {
            assert(module.unit@ == cur@.filter(q));
            pacc = lemma_units_step(&m0, m0.unit, cur, module.unit, pacc, q);
        }
//@ before 1 break;
            proof { lemma_filter_all(cur@, q); }
//@ after-loop 2
    proof { lemma_units_final(&m0, m0.unit, module.unit, pacc); }
"""

UNITS_ORIG = """//@ before-loop 2
    let ghost m2 = *module;
    proof {
        assert forall|s: String| #[trigger] used_units@.contains(s) <==> unit_used_cm(&m0, s@) by {}
    }
//@ loop 2
        invariant
            *module == m2,
            it.snapshot@.remaining() == m2.unit@.map_values(|x: Unit| &x),
            forall|s: String| #[trigger] used_units@.contains(s) <==> unit_used_cm(&m0, s@) || unit_used_units(m2.unit@, it.index@ as int, s@),
//@ loop-end 2
        proof {
            let k = it.index@ as int;
            assert(*unit == m2.unit@[k]);
            assert forall|s: String| #[trigger] used_units@.contains(s) <==> unit_used_cm(&m0, s@) || unit_used_units(m2.unit@, k + 1, s@) by {
                if m2.unit@[k].ref_unit is Some && m2.unit@[k].ref_unit->0.unit@ == s@ { assert(m2.unit@[k].ref_unit->0.unit@ == s@); }
            }
        }
//@ after-loop 2
    let ghost q = |u: Unit| unit_used_cm(&m0, u.name@) || unit_used_units(m0.unit@, m0.unit@.len() as int, u.name@);
//@ after 1 module.unit.retain(
    proof {
        assert(module.unit@ == m0.unit@.filter(q));
    }
"""

# ---- step 4
def step4():
    o = []
    o.append("//@extract a2lfile/src/cleanup/compu_methods.rs fn remove_invalid_sub_element_refs")
    o.append("//@ itername 1 it")
    o.append('//@ rewrite R11 1 "module\\n        .compu_tab\\n        .keys()\\n        .chain(module.compu_vtab.keys())\\n        .chain(module.compu_vtab_range.keys())\\n        .cloned()\\n        .collect::<HashSet<String>>()" => "existing_compu_tab_names(module)"')
    o.append("""//@ spec
    requires
        old(module).compu_method.wf(), old(module).unit.wf(),
        old(module).compu_tab.wf(), old(module).compu_vtab.wf(), old(module).compu_vtab_range.wf(),
    ensures
        final(module).compu_method@.len() == old(module).compu_method@.len(),
        forall|i: int| 0 <= i < old(module).compu_method@.len() ==> cm_refs_fixed(old(module), #[trigger] final(module).compu_method@[i], old(module).compu_method@[i]),
        final(module).compu_method.wf(),
        final(module).compu_tab == old(module).compu_tab, final(module).compu_vtab == old(module).compu_vtab,
        final(module).compu_vtab_range == old(module).compu_vtab_range, final(module).unit == old(module).unit,
        cm_objects_same(final(module), old(module)),
        cm_frame_untouched(final(module), old(module)),
//@ body-start
    let ghost m0 = *module;
    let ghost mut k: int = 0;
    let ghost n: int = module.compu_method@.len() as int;
//@ loop 1
        invariant
            m0.unit.wf(), module.unit == m0.unit,
            forall|s: String| #[trigger] existing_compu_tabs@.contains(s) <==> tab_exists(&m0, s@),
            iter_mut_inv(it.snapshot@.remaining(), it.history@, it.iter.remaining(), it.index@ as int, k, n, m0.compu_method@),
            forall|j: int| 0 <= j < it.index@ ==> cm_refs_fixed(&m0, mut_ref_future(#[trigger] it.snapshot@.remaining()[j]), m0.compu_method@[j]),
//@ loop-end 1
        proof { k = k + 1; }
//@end
""")
    return "\n".join(o)

# ---- composition
def step5():
    return """//@extract a2lfile/src/cleanup/compu_methods.rs fn cleanup
//@ spec
    requires
        cm_lists_wf(old(module)),
        cm_objects_wf(old(module)),
    ensures
        // (E1) measurement / calibration objects and typedefs: only dangling `conversion` references are replaced
        final(module).axis_pts@.len() == old(module).axis_pts@.len(),
        forall|i: int| 0 <= i < old(module).axis_pts@.len() ==> axis_pts_fixed(old(module), #[trigger] final(module).axis_pts@[i], old(module).axis_pts@[i]),
        final(module).characteristic@.len() == old(module).characteristic@.len(),
        forall|i: int| 0 <= i < old(module).characteristic@.len() ==> characteristic_fixed(old(module), #[trigger] final(module).characteristic@[i], old(module).characteristic@[i]),
        final(module).measurement@.len() == old(module).measurement@.len(),
        forall|i: int| 0 <= i < old(module).measurement@.len() ==> measurement_fixed(old(module), #[trigger] final(module).measurement@[i], old(module).measurement@[i]),
        final(module).typedef_axis@.len() == old(module).typedef_axis@.len(),
        forall|i: int| 0 <= i < old(module).typedef_axis@.len() ==> typedef_axis_fixed(old(module), #[trigger] final(module).typedef_axis@[i], old(module).typedef_axis@[i]),
        final(module).typedef_characteristic@.len() == old(module).typedef_characteristic@.len(),
        forall|i: int| 0 <= i < old(module).typedef_characteristic@.len() ==> typedef_characteristic_fixed(old(module), #[trigger] final(module).typedef_characteristic@[i], old(module).typedef_characteristic@[i]),
        final(module).typedef_measurement@.len() == old(module).typedef_measurement@.len(),
        forall|i: int| 0 <= i < old(module).typedef_measurement@.len() ==> typedef_measurement_fixed(old(module), #[trigger] final(module).typedef_measurement@[i], old(module).typedef_measurement@[i]),
        cm_objects_wf(final(module)),
        // (E2) COMPU_METHODs: kept iff referenced from a COMPU_METHOD site of the result; sub-list, order preserved
        forall|n: Seq<char>| #[trigger] final(module).compu_method.has(n) <==> old(module).compu_method.has(n) && cm_used(final(module), n),
        exists|p: spec_fn(CompuMethod) -> bool| cm_sublist(final(module).compu_method@, old(module).compu_method@.filter(p)),
        // (E3) conversion tables: kept iff referenced from a remaining COMPU_METHOD; unchanged elements, order preserved
        forall|n: Seq<char>| #[trigger] final(module).compu_tab.has(n) <==> old(module).compu_tab.has(n) && tab_used(final(module), n),
        forall|n: Seq<char>| #[trigger] final(module).compu_vtab.has(n) <==> old(module).compu_vtab.has(n) && tab_used(final(module), n),
        forall|n: Seq<char>| #[trigger] final(module).compu_vtab_range.has(n) <==> old(module).compu_vtab_range.has(n) && tab_used(final(module), n),
        exists|p: spec_fn(CompuTab) -> bool| final(module).compu_tab@ == old(module).compu_tab@.filter(p),
        exists|p: spec_fn(CompuVtab) -> bool| final(module).compu_vtab@ == old(module).compu_vtab@.filter(p),
        exists|p: spec_fn(CompuVtabRange) -> bool| final(module).compu_vtab_range@ == old(module).compu_vtab_range@.filter(p),
        // (E4) UNITs: kept iff referenced from a remaining COMPU_METHOD or a remaining UNIT
        forall|n: Seq<char>| #[trigger] final(module).unit.has(n) <==> old(module).unit.has(n) && unit_used(final(module), n),
        exists|p: spec_fn(Unit) -> bool| final(module).unit@ == old(module).unit@.filter(p),
        cm_lists_wf(final(module)),
        // nothing else is touched
        cm_frame_untouched(final(module), old(module)),
//@ body-start
    let ghost m0 = *module;
//@ after 1 remove_invalid_compumethod_refs(module);
    let ghost m1 = *module;
//@ after 1 remove_unused_compumethods(module);
    let ghost m2 = *module;
//@ after 1 remove_unused_sub_elements(module);
    let ghost m3 = *module;
//@ after 1 remove_invalid_sub_element_refs(module);
    proof {
        let fin = *module;
        let pc = |c: CompuMethod| cm_used(&m1, c.name@);
        // (E2)
        lemma_has_filter(m0.compu_method, m2.compu_method, pc, |n: Seq<char>| cm_used(&m1, n));
        assert forall|n: Seq<char>| #[trigger] fin.compu_method.has(n) <==> m0.compu_method.has(n) && cm_used(&fin, n) by {
            lemma_cm_used_cong(&fin, &m1, n);
            if fin.compu_method.has(n) {
                let i = choose|i: int| 0 <= i < fin.compu_method@.len() && (#[trigger] fin.compu_method@[i]).spec_name() == n;
                assert(cm_refs_fixed(&m3, fin.compu_method@[i], m3.compu_method@[i]));
                assert(m2.compu_method@[i].spec_name() == n);
                assert(m2.compu_method.has(n));
            }
            if m2.compu_method.has(n) {
                let i = choose|i: int| 0 <= i < m2.compu_method@.len() && (#[trigger] m2.compu_method@[i]).spec_name() == n;
                assert(cm_refs_fixed(&m3, fin.compu_method@[i], m3.compu_method@[i]));
                assert(fin.compu_method@[i].spec_name() == n);
            }
        }
        assert(cm_sublist(fin.compu_method@, m0.compu_method@.filter(pc))) by {
            assert forall|i: int| 0 <= i < m2.compu_method@.len() implies cm_refs_fixed(&m3, #[trigger] fin.compu_method@[i], m2.compu_method@[i]) by {
                assert(cm_refs_fixed(&m3, fin.compu_method@[i], m3.compu_method@[i]));
            }
        }
        // (E3), (E4)
        lemma_step4_usage(&m3, &fin);
        let pt = |t: CompuTab| tab_used(&m2, t.name@);
        let pv = |t: CompuVtab| tab_used(&m2, t.name@);
        let pr = |t: CompuVtabRange| tab_used(&m2, t.name@);
        lemma_has_filter(m0.compu_tab, fin.compu_tab, pt, |n: Seq<char>| tab_used(&m2, n));
        lemma_has_filter(m0.compu_vtab, fin.compu_vtab, pv, |n: Seq<char>| tab_used(&m2, n));
        lemma_has_filter(m0.compu_vtab_range, fin.compu_vtab_range, pr, |n: Seq<char>| tab_used(&m2, n));
        assert forall|n: Seq<char>| tab_used(&m2, n) == tab_used(&m3, n) by {}
        assert forall|n: Seq<char>| #[trigger] fin.compu_tab.has(n) <==> m0.compu_tab.has(n) && tab_used(&fin, n) by {
            if m0.compu_tab.has(n) && tab_used(&fin, n) { assert(tab_used(&m3, n)); assert(fin.compu_tab.has(n)); }
            if fin.compu_tab.has(n) { assert(tab_exists(&m3, n)); }
        }
        assert forall|n: Seq<char>| #[trigger] fin.compu_vtab.has(n) <==> m0.compu_vtab.has(n) && tab_used(&fin, n) by {
            if m0.compu_vtab.has(n) && tab_used(&fin, n) { assert(tab_used(&m3, n)); assert(fin.compu_vtab.has(n)); }
            if fin.compu_vtab.has(n) { assert(tab_exists(&m3, n)); }
        }
        assert forall|n: Seq<char>| #[trigger] fin.compu_vtab_range.has(n) <==> m0.compu_vtab_range.has(n) && tab_used(&fin, n) by {
            if m0.compu_vtab_range.has(n) && tab_used(&fin, n) { assert(tab_used(&m3, n)); assert(fin.compu_vtab_range.has(n)); }
            if fin.compu_vtab_range.has(n) { assert(tab_exists(&m3, n)); }
        }
        assert forall|n: Seq<char>| #[trigger] fin.unit.has(n) <==> m0.unit.has(n) && unit_used(&fin, n) by {
            assert(m3.unit.has(n) <==> m2.unit.has(n) && unit_used(&m3, n));
            if m0.unit.has(n) && unit_used(&fin, n) { assert(unit_used_cm(&fin, n) ==> unit_used_cm(&m3, n)); }
            if fin.unit.has(n) { assert(unit_used_cm(&m3, n) ==> unit_used_cm(&fin, n)); }
        }
    }
//@end
"""

TAIL = '''
}

} // verus!

fn main() {}
'''
open("/verif/contracts/U-CLN-CM%s.vrs" % ("-FIXED" if FIXED else ""), "w").write(HEAD + step5() + step1() + step2() + step3() + step4() + TAIL)
