// replay helper for unit U-A2MLP: parse argv[1] as a built-in A2ML specification through the public API
fn main() {
    let mut aml = std::env::args().nth(1).unwrap();
    if let Some(path) = aml.strip_prefix('@') {
        aml = std::fs::read_to_string(path).unwrap(); // `@file`: read the A2ML text from a file
    }
    let a2l = r#"ASAP2_VERSION 1 71 /begin PROJECT p "" /begin MODULE m "" /end MODULE /end PROJECT"#;
    match a2lfile::load_from_string(a2l, Some(aml), false) {
        Ok(_) => println!("RESULT: Ok"),
        Err(e) => println!("RESULT: Err({e})"),
    }
}
