#!/usr/bin/env python3
"""negative controls: each edit of the generated file must make verification FAIL (in the named function)"""
import subprocess, sys, re
src = sys.argv[1]
import tempfile, os
NCFILE = os.path.join(tempfile.mkdtemp(prefix="mrg9thm-nc-"), "nc.rs")
base = open(src).read()
NC = [
 ("tab_ok without injectivity", "    &&& forall|i: int, j: int| 0 <= i < nb.len() && 0 <= j < nb.len() && rn(t, #[trigger] nb[i]) == rn(t, #[trigger] nb[j]) ==> nb[i] == nb[j]\n", "", "lemma_desig"),
 ("tab_ok without dom(t) in names", "    &&& forall|s: String| #[trigger] t.contains_key(s) ==> nb.contains(s)\n", "    &&& true\n", "lemma_desig"),
 ("T1 resolves(b1) without resolves(b)", "        resolves(b, k) ==> resolves(b1, k),\n{", "        resolves(b1, k),\n{", "theorem_t1"),
 ("T1 claims sites of OTHER module unchanged wrongly (v == u for kind k)", "        &&& !nb.contains(u) ==> v == u\n    }\n}\n\npub open spec fn distinct", "        &&& v == u\n    }\n}\n\npub open spec fn distinct", "lemma_desig"),
 ("Rel table forgets INSTANCE.type_ref", "        &&& (r.td)(self.type_ref, b.type_ref)\n", "        &&& b.type_ref == self.type_ref\n", "l_eq"),
 ("Rel table forgets UNIT.REF_UNIT", "impl Rel for Unit {\n    closed spec fn rel(self, b: Self, r: Rels) -> bool {\n        &&& b.name == self.name\n        &&& rel_opt(self.ref_unit, b.ref_unit, r)\n", "impl Rel for Unit {\n    closed spec fn rel(self, b: Self, r: Rels) -> bool {\n        &&& b.name == self.name\n", "l_eq"),
 ("Rel table uses the wrong kind at COMPARISON_QUANTITY", "impl Rel for ComparisonQuantity {\n    closed spec fn rel(self, b: Self, r: Rels) -> bool {\n        &&& (r.obj)(self.name, b.name)", "impl Rel for ComparisonQuantity {\n    closed spec fn rel(self, b: Self, r: Rels) -> bool {\n        &&& (r.cm)(self.name, b.name)", "l_eq"),
 ("Rel table has a site too many (FUNCTION_LIST renamed)", "        &&& b.name_list@ == self.name_list@\n    }\n}\nimpl Thm for FunctionList", "        &&& rel_idents(self.name_list@, b.name_list@, r.obj)\n    }\n}\nimpl Thm for FunctionList", "l_eq"),
 ("compose without disjointness", "        ren_module(b, c, t2),\n        disjoint_tabs(t1, t2),\n", "        ren_module(b, c, t2),\n", "lemma_ren_compose"),
 ("T2 with the object table applied twice", "        ren_module(m6, m7, tabs_td(t.td)),\n", "        ren_module(m6, m7, tabs_obj(t.obj)),\n", "theorem_t2_all_kinds"),
 ("act_ok: new names not fresh w.r.t. A", "    &&& forall|s: String| #[trigger] t.contains_key(s) ==> !na.contains(t[s])\n", "", "lemma_desig3"),
 ("act_ok: skipped element without twin in A", "    &&& forall|i: int| 0 <= i < nb.len() && !added(#[trigger] nb[i]) ==> na.contains(nb[i])\n", "", "lemma_desig3"),
 ("act_ok: added under own name although A has the name", "    &&& forall|i: int| 0 <= i < nb.len() && added(#[trigger] nb[i]) && !t.contains_key(nb[i]) ==> !na.contains(nb[i])\n", "", "lemma_desig3"),
 ("T3 without the composition hypothesis", "        merged_module(a, bp, r, k, added, t),\n        act_ok(", "        act_ok(", "theorem_t3_result"),
 ("holder table: INSTANCE holds no typedef site", "        Instance::holds()              == hs(true,  true,  false, false, false, true,  false, false),", "        Instance::holds()              == hs(true,  true,  false, false, false, false, false, false),", "theorem_t2b_holder_table"),
 ("holds() of Instance without td", "impl Thm for Instance {\n    proof fn l_eq(self, b: Self, t: Tabs) { ll_eq(self.overwrite, b.overwrite, t); }\n    proof fn l_comp(self, b: Self, c: Self, r1: Rels, r2: Rels) { ll_comp(self.overwrite, b.overwrite, c.overwrite, r1, r2); }\n    proof fn l_mono(self, b: Self, r1: Rels, r2: Rels) { ll_mono(self.overwrite, b.overwrite, r1, r2); }\n    proof fn l_cod(self, b: Self, r: Rels, q: Preds) { ll_cod(self.overwrite, b.overwrite, r, q); }\n    open spec fn holds() -> Holds { Holds { obj: true, cm: true, tab: false, unit: false, rl: false, td: true,", "impl Thm for Instance {\n    proof fn l_eq(self, b: Self, t: Tabs) { ll_eq(self.overwrite, b.overwrite, t); }\n    proof fn l_comp(self, b: Self, c: Self, r1: Rels, r2: Rels) { ll_comp(self.overwrite, b.overwrite, c.overwrite, r1, r2); }\n    proof fn l_mono(self, b: Self, r1: Rels, r2: Rels) { ll_mono(self.overwrite, b.overwrite, r1, r2); }\n    proof fn l_cod(self, b: Self, r: Rels, q: Preds) { ll_cod(self.overwrite, b.overwrite, r, q); }\n    open spec fn holds() -> Holds { Holds { obj: true, cm: true, tab: false, unit: false, rl: false, td: false,", "l_indep"),
 ("moved list final although a held kind is still to be renamed", "        ren_list(l0, lj, tj),\n        agree_tabs(tj, t, T::holds()),\n", "        ren_list(l0, lj, tj),\n", "theorem_t2b_moved_list_final"),
 ("relabel changes more than names (relab_l off => arbitrary)", "    if on { relab_seq(a@, b@, t) } else { b == a }", "    if on { relab_seq(a@, b@, t) } else { true }", "lemma_"),
]
bad = 0
for name, old, new, fn in NC:
    if base.count(old) != 1:
        print("ANCHOR PROBLEM (%d matches): %s" % (base.count(old), name)); bad += 1; continue
    open(NCFILE, "w").write(base.replace(old, new))
    p = subprocess.run(["verus", NCFILE, "--triggers-mode", "silent", "--multiple-errors", "20"], capture_output=True, text=True)
    log = p.stdout + p.stderr
    res = re.findall(r"verification results:: (\d+) verified, (\d+) errors", log)
    # which functions failed: look for fn names near error spans is hard; report the summary and grep the expected name
    ok = (res and int(res[0][1]) > 0)
    hit = fn in log
    print("%-75s %s %s" % (name, "FAILS as required" if ok else "!!! STILL VERIFIES / compile error", res[0] if res else log.strip().split("\n")[-3:]))
    if not ok: bad += 1
print("bad:", bad)
