"""Developer helper: extract one unit and run Verus on it, printing mapped errors.
usage: python3 -m vf.dev <unit> [--vacuity] [--keep] [--repo /repo] [verus args...]
"""
import os
import subprocess
import sys
import tempfile

from . import extract


def main():
    args = sys.argv[1:]
    unit = args.pop(0)
    vac = "--vacuity" in args
    if vac:
        args.remove("--vacuity")
    repo = os.environ.get("VF_REPO", "/repo")
    if "--repo" in args:
        k = args.index("--repo")
        repo = args[k + 1]
        del args[k:k + 2]
    root = os.path.dirname(os.path.dirname(os.path.abspath(__file__)))
    u = extract.process(os.path.join(root, "contracts", unit + ".vrs"), repo, vacuity=vac)
    d = os.environ.get("VF_DEV_DIR") or tempfile.mkdtemp(prefix="vfdev-")
    os.makedirs(d, exist_ok=True)
    path = os.path.join(d, unit.replace("-", "_") + ".rs")
    with open(path, "w") as f:
        f.write(u.text)
    print("wrote", path, "(%d lines, %d functions)" % (len(u.linemap), len(u.functions)))
    for g in u.ghost_lint:
        print("LINT", g)
    r = subprocess.run(["verus", path, "--multiple-errors", "10"] + args, cwd=d, capture_output=True, text=True)
    print(r.stdout[-3000:])
    print(r.stderr[-12000:])


if __name__ == "__main__":
    main()
