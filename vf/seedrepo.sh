#!/bin/sh
# usage: vf/seedrepo.sh <dir-with-patch.diff> <dest>   — scratch copy of /repo's working tree with the patch applied (no target/, no .git)
set -e
rm -rf "$2"; mkdir -p "$2"
rsync -a --exclude target --exclude .git /repo/ "$2"/
cd "$2" && patch -p1 -s < "$1"/patch.diff
