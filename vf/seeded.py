"""Confirm and evaluate seeded property-breaking changes.

usage: python3 -m vf.seeded confirm <src-dir> <seed-id>    src-dir holds patch.diff, seed_demo.rs, meta.json (from a sub-agent)
           -> confirms in a scratch worktree: suite passes with the change, demo fails with it and passes without it;
              on success copies the three files to /verif/seeded/<seed-id>/ and runs the property's check against the change.
       python3 -m vf.seeded run [seed-id ...]              re-run the checks against every kept seed (scratch copies; /repo untouched)
"""
import json
import os
import shutil
import subprocess
import sys
import tempfile
import time

ROOT = os.path.dirname(os.path.dirname(os.path.abspath(__file__)))
REPO = "/repo"
TARGET = "/tmp/vf-seed-target"


def sh(cmd, cwd=None, env=None, timeout=3600):
    e = dict(os.environ)
    if env:
        e.update(env)
    r = subprocess.run(cmd, cwd=cwd, env=e, shell=isinstance(cmd, str), capture_output=True, text=True, timeout=timeout)
    return r.returncode, r.stdout + r.stderr


def make_worktree():
    d = tempfile.mkdtemp(prefix="vf-seedwt-")
    os.rmdir(d)
    rc, out = sh(["git", "-C", REPO, "worktree", "add", "-q", "--detach", d, "HEAD"])
    if rc != 0:
        raise RuntimeError(out)
    return d


def drop_worktree(d):
    sh(["git", "-C", REPO, "worktree", "remove", "--force", d])
    shutil.rmtree(d, ignore_errors=True)


def cargo_test(wt, args, timeout=3000):
    rc, out = sh("cargo test --offline %s 2>&1" % args, cwd=wt, env={"CARGO_TARGET_DIR": TARGET}, timeout=timeout)
    return rc, "\n".join(out.split("\n")[-60:])


def summarize(out):
    lines = [l for l in out.split("\n") if l.startswith("test result") or "FAILED" in l or "panicked" in l or "error" in l.lower()]
    return lines[-12:]


def run_checks(wt, pids):
    res = {}
    for pid in pids:
        ev = tempfile.mkdtemp(prefix="vf-seedev-")
        rc, out = sh([sys.executable, "-m", "vf.check", pid], cwd=ROOT, env={"VF_REPO": wt, "VF_EVIDENCE_DIR": ev})
        res[pid] = {"exit": rc, "lines": [l for l in out.split("\n") if l.startswith(("VIOLATION", "UNDECIDED", "  failed", "KNOWN"))][:12]}
        shutil.rmtree(ev, ignore_errors=True)
    return res


def claimed():
    return list(json.load(open(os.path.join(ROOT, "contracts", "props.json"))).keys())


def confirm(src, sid):
    meta = json.load(open(os.path.join(src, "meta.json")))
    pid = meta["property"]
    wt = make_worktree()
    log = []
    try:
        rc, out = sh(["git", "-C", wt, "apply", "--whitespace=nowarn", os.path.join(src, "patch.diff")])
        if rc != 0:
            print("patch does not apply:", out)
            return 2
        shutil.copy(os.path.join(src, "seed_demo.rs"), os.path.join(wt, "a2lfile", "tests", "seed_demo.rs"))
        # 1. demo with change: must fail
        rc1, o1 = cargo_test(wt, "-p a2lfile --test seed_demo")
        log.append("demo with change: rc=%d %s" % (rc1, summarize(o1)[-3:]))
        # 2. suite with change (without the demo): must pass
        os.remove(os.path.join(wt, "a2lfile", "tests", "seed_demo.rs"))
        rc2, o2 = cargo_test(wt, "--workspace --no-fail-fast")
        log.append("suite with change: rc=%d %s" % (rc2, summarize(o2)[-6:]))
        # 3. checks against the change
        checks = run_checks(wt, [pid])
        # 4. demo without change: must pass
        sh(["git", "-C", wt, "checkout", "--", "."])
        shutil.copy(os.path.join(src, "seed_demo.rs"), os.path.join(wt, "a2lfile", "tests", "seed_demo.rs"))
        rc3, o3 = cargo_test(wt, "-p a2lfile --test seed_demo")
        log.append("demo without change: rc=%d %s" % (rc3, summarize(o3)[-3:]))
    finally:
        drop_worktree(wt)
    ok = (rc1 != 0 and rc2 == 0 and rc3 == 0)
    for l in log:
        print(l)
    print("confirmed" if ok else "NOT CONFIRMED", "| check:", checks)
    if ok:
        dst = os.path.join(ROOT, "seeded", sid)
        os.makedirs(dst, exist_ok=True)
        for f in ("patch.diff", "seed_demo.rs"):
            shutil.copy(os.path.join(src, f), os.path.join(dst, f))
        meta["confirmed_by_lead"] = log
        meta["repo_commit"] = sh(["git", "-C", REPO, "rev-parse", "--short", "HEAD"])[1].strip()
        meta["checks"] = checks
        meta["detected"] = checks[pid]["exit"] == 1
        json.dump(meta, open(os.path.join(dst, "meta.json"), "w"), indent=1)
    return 0 if ok else 1


def run(ids):
    base = os.path.join(ROOT, "seeded")
    rows = []
    for sid in sorted(os.listdir(base)):
        if ids and sid not in ids:
            continue
        mp = os.path.join(base, sid, "meta.json")
        if not os.path.exists(mp):
            continue
        meta = json.load(open(mp))
        wt = make_worktree()
        try:
            rc, out = sh(["git", "-C", wt, "apply", "--whitespace=nowarn", os.path.join(base, sid, "patch.diff")])
            if rc != 0:
                rows.append((sid, meta["property"], "patch no longer applies"))
                continue
            checks = run_checks(wt, [meta["property"]])
        finally:
            drop_worktree(wt)
        meta["checks"] = checks
        meta["detected"] = checks[meta["property"]]["exit"] == 1
        meta["checked_at_verif_commit"] = sh(["git", "-C", ROOT, "rev-parse", "--short", "HEAD"])[1].strip()
        json.dump(meta, open(mp, "w"), indent=1)
        rows.append((sid, meta["property"], "exit %d" % checks[meta["property"]]["exit"], checks[meta["property"]]["lines"][:3]))
    for r in rows:
        print(*r)


if __name__ == "__main__":
    if sys.argv[1] == "confirm":
        sys.exit(confirm(sys.argv[2], sys.argv[3]))
    else:
        run(sys.argv[2:])
