"""check <property> [--tier quick|thorough]  — decide one property on /repo's current working tree."""
import concurrent.futures as cf
import json
import os
import sys
import time

from . import run as vrun

ROOT = vrun.ROOT


def load_props():
    with open(os.path.join(ROOT, "contracts", "props.json")) as f:
        return json.load(f)


def load_known():
    p = os.path.join(ROOT, "known_findings.json")
    if not os.path.exists(p):
        return {"findings": [], "fixed": []}
    with open(p) as f:
        return json.load(f)


def main(argv=None):
    argv = list(sys.argv[1:] if argv is None else argv)
    if not argv:
        print("usage: check <property-id> [--tier quick|thorough]")
        return 2
    pid = argv.pop(0)
    tier = os.environ.get("VERIF_TIER", "quick")
    if "--tier" in argv:
        tier = argv[argv.index("--tier") + 1]
    if tier not in ("quick", "thorough"):
        tier = "quick"
    seed = int(os.environ.get("VERIF_SEED", "0") or 0)
    props = load_props()
    if pid not in props:
        print("property %s is not claimed (see MANIFEST.json not_applicable)" % pid)
        return 2
    cfg = props[pid]
    t0 = time.time()
    units = cfg.get("units", [])
    results = []
    with cf.ThreadPoolExecutor(max_workers=max(1, min(4, len(units)))) as ex:
        futs = [ex.submit(vrun.run_unit, u, tier, None, None, 4 if tier == "thorough" else 1) for u in units]
        for f in futs:
            results.append(f.result())
    extra = []
    for step in cfg.get("steps", []):
        if step.get("tiers") and tier not in step["tiers"]:
            continue
        from . import steps
        extra.append(steps.run_step(step, pid, tier, seed))

    # bounded native driver (stand-in for what the contracts do not reach + counterexample finder)
    drv = None
    if not os.environ.get("VF_NO_DRIVER"):
        from . import native
        if cfg.get("driver") and native.driver_path(pid):
            drv = native.run_driver(pid, vrun.REPO, tier, seed or 1)
    known = load_known()
    kf = [k for k in known.get("findings", []) if k.get("property") == pid]
    failures = []
    undecided = []
    focus = cfg.get("focus", {})
    unrelated = []
    for r in results:
        fl = focus.get(r["unit"])
        for f in r["failures"]:
            fn = (f.get("function") or "").split("::")[-1]
            if fl is not None and fn not in fl and (f.get("function") or "") not in fl:
                unrelated.append("%s @ %s" % (f["obligation"], f.get("where", "")))
            else:
                failures.append(f)
        for u in r["undecided"]:
            undecided.append("%s: %s" % (r["unit"], u))
    for e in extra:
        failures += e.get("failures", [])
        undecided += e.get("undecided", [])

    # known findings: match by obligation name (exact) — anything else is a violation
    known_hit = []
    new_fail = []
    for f in failures:
        hit = None
        for k in kf:
            if k.get("obligation") and k["obligation"] == f["obligation"] and (
                    not k.get("where_contains") or k["where_contains"] in f.get("where", "") + f.get("detail", "")):
                hit = k
                break
        if hit:
            known_hit.append((hit, f))
        else:
            new_fail.append(f)

    obligations = sum(r["obligations"] for r in results) + sum(e.get("obligations", 0) for e in extra)
    discharged = sum(r["discharged"] for r in results) + sum(e.get("discharged", 0) for e in extra)
    trusted = []
    for r in results:
        for t in r["trusted"]:
            if t not in trusted:
                trusted.append(t)
    for e in extra:
        for t in e.get("trusted", []):
            if t not in trusted:
                trusted.append(t)
    fns = []
    for r in results:
        fl = focus.get(r["unit"])
        for f in r["functions"]:
            if fl is not None and f["name"].split("::")[-1] not in fl and f["name"] not in fl:
                continue
            fns.append({"unit": r["unit"], "name": f["name"], "where": "%s:%d" % (f["file"], f["line"]),
                        "status": "assumed (external_body)" if f["external_body"] else
                        ("under contract" if f["has_spec"] else "verified for safety only (no contract)")})
    samples = []
    for r in results:
        fl = focus.get(r["unit"])
        for f in r["functions"][:400]:
            if fl is not None and f["name"].split("::")[-1] not in fl and f["name"] not in fl:
                continue
            if f["has_spec"] and not f["external_body"]:
                samples.append("%s::%s::post+safety @ %s:%d" % (r["unit"], f["name"], f["file"], f["line"]))
    for e in extra:
        samples += e.get("samples", [])
    status = "ok"
    if undecided:
        status = "undecided"
    if new_fail:
        status = "violation"
    drv_fail = []
    if drv and drv.get("status") == "failing":
        kfd = [k.get("driver_case") for k in kf if k.get("driver_case")]
        for l in drv["failing"]:
            if any(c and ("case=" + c) in l for c in kfd):
                continue
            drv_fail.append(l)
        if drv_fail:
            status = "violation"

    # thorough tier: self-test of the contracts against the committed semantic mutants of this property
    mut = None
    if tier == "thorough" and not os.environ.get("VF_NO_MUTANTS") and os.environ.get("VF_REPO") is None:
        try:
            import io
            import contextlib
            from . import mutants as vmut
            buf = io.StringIO()
            with contextlib.redirect_stdout(buf):
                mres = vmut.run([pid], jobs=4)
            mut = {"total": len(mres), "killed": sum(1 for x in mres if x["result"] == "killed"),
                   "killed_by_contracts_alone": sum(1 for x in mres if x["result"] == "killed" and x.get("by") == "contracts"),
                   "killed_only_with_driver": sum(1 for x in mres if x["result"] == "killed" and x.get("by") == "driver"),
                   "not_killed": [x for x in mres if x["result"] != "killed"]}
        except Exception as e:  # never let the self-test change the verdict
            mut = {"error": repr(e)}
    level = cfg.get("level", "proof")
    coverage = {
        "obligations": obligations,
        "discharged": discharged,
        "checker_cmd": "; ".join([r["cmd"] for r in results if r["cmd"]] + [e.get("cmd", "") for e in extra if e.get("cmd")]),
        "trusted_base": trusted,
        "samples": samples[:60] or ["(none)"],
        "functions_under_contract": fns,
        "functions_proved": sum(1 for f in fns if f["status"] == "under contract"),
        "functions_assumed": sum(1 for f in fns if f["status"].startswith("assumed")),
        "vacuity_guards_failed_as_required": sum(r["vacuity_checked"] for r in results),
        "solver_ms": {r["unit"]: r["solver_ms"] for r in results},
        "solver_ms_total": sum(sum(r["solver_ms"].values()) for r in results),
        "back_end": "Verus 0.2026.09.13 / Z3 (unbounded, per-function modular)" + (
            "; Kani 0.68 / CBMC 6.11 for the steps listed under `steps` (complete loop-free harnesses are counted as obligations, bounded ones only under `bounded`)" if extra else ""),
        "extraction": {
            "sources": sorted({s for r in results for s in r["sources"]}),
            "rewrites": [w for r in results for w in r["rewrites"]],
            "rewrites_not_applicable": [w for r in results for w in r.get("skipped_rewrites", [])],
            "dropped": [d for r in results for d in r["dropped"]] + cfg.get("dropped", []),
        },
        "bounded": [b for e in extra for b in e.get("bounded", [])] + ([{
            "kind": "native driver drivers/%s.rs on the real crate (bounded stand-in / counterexample finder; NOT counted in obligations)" % pid,
            "status": drv.get("status"), "summary": drv.get("summary", ""), "cmd": drv.get("cmd", ""),
            "seconds": drv.get("seconds"), "failing": drv.get("failing", []), "detail": drv.get("detail", "")[:600]}] if drv and drv.get("status") != "none" else []),
        "unverified_surroundings": cfg.get("unverified_surroundings", []),
        "mutant_self_test": mut if mut is not None else "thorough tier only",
        "known_findings": ["%s: %s" % (k["obligation"], k["what"]) for k, _ in known_hit],
        "undecided": undecided,
        "failures_outside_this_property": unrelated,
        "focus": focus,
        "failed_obligations": [f["obligation"] + " @ " + f.get("where", "") for f in new_fail],
        "explanation": cfg.get("explanation", ""),
        "steps": [{k: v for k, v in e.items() if k not in ("failures",)} for e in extra],
    }
    if drv and drv.get("cases"):
        # exploration-style counts of the bounded driver (measured by the driver binary on this run); NOT part of the proof
        coverage["evaluations"] = drv["cases"]
        coverage["distinct_nontrivial"] = drv.get("distinct", 0)
        coverage["rule"] = ("bounded native driver drivers/%s.rs: small-scope enumeration + seeded random generation of inputs / operation "
                            "sequences against the real crate, oracle written from the property statement; distinct = distinct generated cases "
                            "(see drivers/notes/%s.md)" % (pid, pid))
    if level != "proof":
        coverage["explanation"] = cfg.get("explanation", "") or "bounded stand-in; see steps"
    ev = {
        "property_id": pid,
        "tier": tier,
        "seed": seed,
        "level": level,
        "coverage": coverage,
        "assumptions": cfg.get("assumptions", []) + [e_a for e in extra for e_a in e.get("assumptions", [])],
        "wall_s": round(time.time() - t0, 2),
        "violations": len(new_fail) + len(drv_fail),
    }
    evdir = os.environ.get("VF_EVIDENCE_DIR") or os.path.join(ROOT, "evidence")
    os.makedirs(evdir, exist_ok=True)
    with open(os.path.join(evdir, pid + ".json"), "w") as f:
        json.dump(ev, f, indent=1)
        f.write("\n")

    for k, f in known_hit:
        print("KNOWN-FINDING: property=%s %s [%s]" % (pid, k["what"], k["obligation"]))
    for k in kf:
        if k.get("carve_out") and k not in [h for h, _ in known_hit]:
            print("KNOWN-FINDING: property=%s %s [%s]" % (pid, k["what"], k.get("obligation", "")))
    print("%s tier=%s units=%s obligations=%d discharged=%d functions_under_contract=%d wall=%.1fs" % (
        pid, tier, ",".join(units), obligations, discharged, coverage["functions_proved"], ev["wall_s"]))
    if status == "violation":
        rpdir = os.path.join(os.environ["VF_EVIDENCE_DIR"], "replays") if os.environ.get("VF_EVIDENCE_DIR") else os.path.join(ROOT, "replays")
        os.makedirs(rpdir, exist_ok=True)
        rp = os.path.join(rpdir, "%s-%d.txt" % (pid, int(time.time())))
        found_input = bool(drv_fail)
        with open(rp, "w") as f:
            if drv_fail:
                f.write("property %s: failing inputs found on the REAL code by the bounded driver drivers/%s.rs\n" % (pid, pid))
                f.write("replay: copy drivers/%s.rs to a2lfile/tests/ of the tree under test and run\n  %s\n\n" % (pid, drv.get("cmd", "")))
                for l in drv_fail:
                    f.write(l + "\n")
                f.write("\n")
                if not new_fail:
                    f.write("(all Verus obligations of the functions under contract are discharged: the violation lies in code outside the\n"
                            " contracts' reach or in a clause the contracts do not express)\n\n")
            f.write("property %s: failed obligations (the contract is discharged on the unchanged tree)\n\n" % pid)
            for fl in new_fail:
                f.write("OBLIGATION %s\n  at %s %s\n" % (fl["obligation"], fl.get("where", ""), fl.get("detail", "")))
                if fl.get("input"):
                    found_input = True
                    f.write("  FAILING INPUT (replayed on the real code): %s\n" % fl["input"])
                f.write("  verifier output:\n")
                for l in fl.get("rendered", "").split("\n"):
                    f.write("    " + l + "\n")
                f.write("\n")
        for fl in new_fail:
            print("  failed: %s at %s %s" % (fl["obligation"], fl.get("where", ""), fl.get("detail", "")))
        for l in drv_fail[:3]:
            print("  " + l[:300])
        print("VIOLATION property=%s replay=%s%s" % (pid, rp, "" if found_input else " no-failing-input-found"))
        return 1
    if status == "undecided":
        for u in undecided:
            print("UNDECIDED: %s" % u)
        if drv and drv.get("status") == "ok":
            print("  (bounded driver found no failing input: %s)" % drv.get("summary", ""))
        return 2
    return 0


if __name__ == "__main__":
    sys.exit(main())
