"""Extra check steps beyond Verus units (configured in contracts/props.json under "steps").

step := {"kind": "kani", "group": "c17", "complete": false}
  runs /verif/kani/run_kani.py <group> --tier <tier> --repo <repo>; its JSON result is folded into the evidence.
  complete == true  : loop-free harness over the full domain -> counted as discharged obligations (back end: Kani/CBMC)
  complete == false : bounded stand-in -> listed under coverage.bounded, never counted as proved
"""
import json
import os
import subprocess
import sys

from . import run as vrun

ROOT = vrun.ROOT


def run_step(step, pid, tier, seed):
    if step.get("kind") == "kani":
        return _kani(step, pid, tier)
    if step.get("kind") == "frame-strict":
        return _frame_strict(step)
    if step.get("kind") == "gen-scan":
        return _gen_scan(step)
    if step.get("kind") == "gen-taglist":
        return _gen_taglist(step)
    return {"undecided": ["unknown step kind %r" % step.get("kind")]}


def _kani(step, pid, tier):
    group = step["group"]
    # `kani_tier` pins the harness list of the group (e.g. the c17 group: only the harnesses measured to finish within the
    # memory limit are used; the larger ones exist in kani/loader_c17.rs and can be tried by hand with --tier thorough)
    cmd = [sys.executable, os.path.join(ROOT, "kani", "run_kani.py"), group, "--tier", step.get("kani_tier", tier), "--repo", vrun.REPO]
    if step.get("jobs"):
        cmd += ["--jobs", str(step["jobs"])]
    res = {"failures": [], "undecided": [], "bounded": [], "obligations": 0, "discharged": 0, "samples": [],
           "cmd": " ".join(cmd), "trusted": ["Kani 0.68 / CBMC 6.11 (bit-precise bounded model checking of the compiled real functions)"],
           "assumptions": []}
    try:
        p = subprocess.run(cmd, capture_output=True, text=True, timeout=step.get("timeout", 3600))
    except subprocess.TimeoutExpired:
        res["undecided"].append("kani group %s timed out" % group)
        return res
    try:
        k = p.stdout.index("{")
        doc = json.loads(p.stdout[k:])
    except Exception:
        res["undecided"].append("kani group %s produced no JSON (rc=%d): %s" % (group, p.returncode, (p.stderr or p.stdout)[-300:]))
        return res
    for h in doc.get("harnesses", []):
        name = "K-%s::%s" % (group, h.get("name"))
        complete = bool(h.get("complete")) and bool(step.get("complete", h.get("complete")))
        if h.get("status") == "success":
            if complete:
                res["obligations"] += 1
                res["discharged"] += 1
                res["samples"].append("%s (Kani, loop-free over the full domain: complete) %s" % (name, h.get("bound", "")))
            else:
                res["bounded"].append({"kind": "Kani bounded harness", "name": name, "bound": h.get("bound", ""),
                                       "seconds": h.get("seconds"), "status": "success"})
        elif h.get("status") == "failed":
            res["failures"].append({"obligation": name + "::assert", "kind": "kani", "function": h.get("name"),
                                    "where": "kani/%s" % group, "detail": h.get("failing_check", "")[:200],
                                    "rendered": json.dumps(h, indent=1)[:3000],
                                    "input": h.get("concrete_input")})
            if complete:
                res["obligations"] += 1
        else:
            res["undecided"].append("kani harness %s: %s" % (name, h.get("status")))
    return res


def _frame_strict(step):
    """C06 frame obligation (mechanical, DESIGN.md §4 C06 item 3): the parser consults `strict` at exactly one decision point.
    Scan of /repo/a2lfile/src: the field `strict` of ParserState is private, and the only expression that mentions `.strict`
    lies inside `fn error_or_log`. If that no longer holds the meta-argument A-C06 (strict and non-strict runs take the same path
    until the first error_or_log) does not apply any more: the step reports UNDECIDED ("frame lost"), never a violation."""
    import re
    from . import extract, rustlex
    res = {"failures": [], "undecided": [], "bounded": [], "obligations": 0, "discharged": 0, "samples": [],
           "cmd": "vf.steps frame-strict (token scan of a2lfile/src)", "trusted": ["vf/steps.py frame scan (rustlex tokens)"], "assumptions": []}
    src_dir = os.path.join(vrun.REPO, "a2lfile", "src")
    reads = []
    decl_private = None
    for root, _dirs, files in os.walk(src_dir):
        for fn in sorted(files):
            if not fn.endswith(".rs"):
                continue
            pth = os.path.join(root, fn)
            rel = os.path.relpath(pth, vrun.REPO)
            try:
                text = open(pth, encoding="utf-8").read()
            except Exception:
                continue
            if ".strict" not in text and "strict:" not in text:
                continue
            sf = rustlex.SourceFile(rel, text)
            ct = rustlex.code_tokens(rustlex.lex(text))
            for i, t in enumerate(ct):
                if t.kind == "ident" and t.text == "strict" and i > 0 and ct[i - 1].text == "." and not (i + 1 < len(ct) and ct[i + 1].text == "("):
                    # enclosing fn: nearest preceding `fn name` at lower offset (good enough for rustfmt-formatted sources)
                    encl = "?"
                    for j in range(i, 0, -1):
                        if ct[j].kind == "ident" and ct[j].text == "fn" and j + 1 < len(ct):
                            encl = ct[j + 1].text
                            break
                    reads.append((rel, sf.line_of(t.start), encl))
            if rel.endswith("parser.rs"):
                m = re.search(r"struct ParserState<'a> \{(.*?)\n\}", text, re.S)
                if m:
                    fm = re.search(r"^\s*((?:pub(?:\([a-z]+\))?\s+)?)strict\s*:\s*bool", m.group(1), re.M)
                    if fm is not None:
                        decl_private = fm.group(1).strip() == ""
    outside = [r for r in reads if r[2] != "error_or_log"]
    res["samples"].append("frame-strict: %d access(es) to `.strict`: %s; field private: %s" % (len(reads), reads[:6], decl_private))
    if decl_private is None:
        res["undecided"].append("frame-strict: declaration of ParserState.strict not found (frame of A-C06 lost)")
    elif not decl_private or outside or not reads:
        res["undecided"].append("frame lost: `strict` is no longer consulted at exactly one decision point (private: %s, accesses outside error_or_log: %s): "
                                "the meta-argument A-C06 does not apply to this tree" % (decl_private, outside[:4]))
    else:
        res["obligations"] = 1
        res["discharged"] = 1
        res["samples"].append("C06-frame::strict-single-decision-point (mechanical scan: private field, read only in error_or_log @ %s:%d)" % (reads[0][0], reads[0][1]))
    return res


def _gen_scan(step):
    """C03 frame of the generated parsers (mechanical): the `parse` / `parse_file` functions of specification.rs are not verified,
    but panic-freedom of loading composes through them only if they contain no panicking construct of their own. Token scan of
    every generated `fn parse`: no `unwrap`/`expect`/`panic!`/`unreachable!`/`assert!`, no arithmetic operator, no `as` cast, and no
    index expression other than `parser.filenames[parser.last_token_fileid]` (in range by the proved invariant ParserState::loc_ok).
    Loops are listed (their termination - each iteration consumes a token or ends the loop - is NOT checked here: assumption A-GEN).
    A construct outside this list makes the step UNDECIDED ("frame lost"), never a violation."""
    from . import rustlex
    res = {"failures": [], "undecided": [], "bounded": [], "obligations": 0, "discharged": 0, "samples": [],
           "cmd": "vf.steps gen-scan (token scan of the generated parse functions in a2lfile/src/specification.rs)",
           "trusted": ["vf/steps.py gen-scan (rustlex tokens)"], "assumptions": []}
    pth = os.path.join(vrun.REPO, "a2lfile", "src", "specification.rs")
    try:
        text = open(pth, encoding="utf-8").read()
    except Exception as e:
        res["undecided"].append("gen-scan: cannot read specification.rs: %r" % e)
        return res
    cut = text.find("#[cfg(test)]")
    sf = rustlex.SourceFile("a2lfile/src/specification.rs", text[:cut] if cut > 0 else text)
    nfn = 0
    bad = []
    loops = 0
    idx_ok = 0
    for it in sf.top:
        if it.kind != "impl":
            continue
        for ch in sf.children(it):
            if ch.kind != "fn" or ch.name not in ("parse", "parse_file"):
                continue
            nfn += 1
            body = sf.text[ch.body_open:ch.end]
            ct = rustlex.code_tokens(rustlex.lex(body))
            for i, t in enumerate(ct):
                k = None
                prev = ct[i - 1] if i > 0 else None
                if t.text == "[" and prev is not None and (prev.kind in ("ident", "num") or prev.text in (")", "]")) \
                        and prev.text not in ("vec", "return", "in", "mut"):
                    j = rustlex.match_close(ct, i)
                    inner = "".join(x.text for x in ct[i + 1:j])
                    base = "".join(x.text for x in ct[max(0, i - 3):i])
                    if base.endswith("parser.filenames") and inner == "parser.last_token_fileid":
                        idx_ok += 1
                    else:
                        k = "index `%s[%s]`" % (base, inner)
                elif t.kind == "ident" and t.text in ("unwrap", "expect", "unreachable", "panic", "unimplemented", "todo", "assert", "assert_eq"):
                    k = t.text
                elif t.kind == "ident" and t.text in ("loop", "while", "for"):
                    loops += 1
                elif t.kind == "punct" and t.text in ("+", "-", "*", "/", "%") and prev is not None and \
                        (prev.kind in ("ident", "num") or prev.text in (")", "]")) and i + 1 < len(ct) and ct[i + 1].text != ">":
                    k = "arithmetic `%s`" % t.text
                elif t.kind == "ident" and t.text == "as":
                    k = "`as` cast"
                if k:
                    bad.append("%s @ %s:%d" % (k, sf.path if hasattr(sf, "path") else "specification.rs", sf.line_of(ch.body_open + t.start)))
    res["samples"].append("gen-scan: %d generated parse functions, %d loops (termination assumed: A-GEN), %d index expressions `parser.filenames[parser.last_token_fileid]`" % (nfn, loops, idx_ok))
    if nfn < 100:
        res["undecided"].append("gen-scan: only %d generated parse functions found (layout of specification.rs changed?)" % nfn)
    elif bad:
        res["undecided"].append("frame lost: generated parse functions contain constructs that can panic and are not under contract: %s" % "; ".join(bad[:6]))
    else:
        res["obligations"] = 1
        res["discharged"] = 1
        res["samples"].append("C03-frame::generated-parsers-have-no-panicking-construct (mechanical scan of %d functions)" % nfn)
    return res


def _gen_taglist(step):
    """C07 frame of the generated block parsers (mechanical, assumption A-GEN-C07 made checkable): in every generated `fn parse`
    that recovers from unknown sub-elements, (1) the recovery call has the shape
    `parser.handle_unknown_taggedstruct_tag(context, tag, is_block, &TAG_LIST)`, (2) it stands in the `_ =>` arm of the
    `match tag { .. }` that dispatches the known sub-elements, and (3) the constant TAG_LIST declared in that function lists
    exactly the string literals of the other arms of that match - i.e. the stoplist handed to the recovery function is the set
    of tags the enclosing block really understands, which is what the proved exactness clause of the recovery function
    (U-CUR keyword_skip_exact) is relative to. A deviation is reported as UNDECIDED ("frame lost")."""
    import re
    from . import rustlex
    res = {"failures": [], "undecided": [], "bounded": [], "obligations": 0, "discharged": 0, "samples": [],
           "cmd": "vf.steps gen-taglist (scan of the generated parse functions in a2lfile/src/specification.rs)",
           "trusted": ["vf/steps.py gen-taglist (regular expressions over rustfmt-formatted generated code)"], "assumptions": []}
    pth = os.path.join(vrun.REPO, "a2lfile", "src", "specification.rs")
    try:
        text = open(pth, encoding="utf-8").read()
    except Exception as e:
        res["undecided"].append("gen-taglist: cannot read specification.rs: %r" % e)
        return res
    cut = text.find("#[cfg(test)]")
    sf = rustlex.SourceFile("a2lfile/src/specification.rs", text[:cut] if cut > 0 else text)
    nrec = 0
    bad = []
    for it in sf.top:
        if it.kind != "impl":
            continue
        for ch in sf.children(it):
            if ch.kind != "fn" or ch.name not in ("parse", "parse_file"):
                continue
            body = sf.text[ch.body_open:ch.end]
            calls = [m for m in re.finditer(r"handle_unknown_taggedstruct_tag\s*\(", body)]
            if not calls:
                continue
            who = " ".join(sf.text[it.start:it.body_open].split())[:60]
            for c in calls:
                nrec += 1
                args = re.match(r"handle_unknown_taggedstruct_tag\s*\(\s*context\s*,\s*tag\s*,\s*is_block\s*,\s*&TAG_LIST\s*,?\s*\)", body[c.start():c.start() + 200])
                if not args:
                    bad.append("%s: recovery call is not (context, tag, is_block, &TAG_LIST)" % who)
                    continue
                # the enclosing `match tag {` and its TAG_LIST constant: the nearest ones in front of the call
                mpos = body.rfind("match tag {", 0, c.start())
                tpos = body.rfind("const TAG_LIST", 0, c.start())
                if mpos < 0 or tpos < 0:
                    bad.append("%s: no `match tag` / TAG_LIST in front of the recovery call" % who)
                    continue
                tl = re.match(r"const TAG_LIST\s*:\s*\[&(?:'static )?str;\s*(\d+)usize\]\s*=\s*\[(.*?)\];", body[tpos:], re.S)
                if not tl:
                    bad.append("%s: TAG_LIST declaration not recognised" % who)
                    continue
                listed = re.findall(r'"((?:[^"\\]|\\.)*)"', tl.group(2))
                if len(listed) != int(tl.group(1)):
                    bad.append("%s: TAG_LIST length mismatch" % who)
                    continue
                arms = re.findall(r'^\s*"((?:[^"\\]|\\.)*)"\s*=>', body[mpos:c.start()], re.M)
                if sorted(arms) != sorted(listed):
                    bad.append("%s: TAG_LIST %s differs from the match arms %s" % (who, sorted(set(listed) - set(arms))[:3], sorted(set(arms) - set(listed))[:3]))
                    continue
                # the call must be the body of the wildcard arm
                pre = body[mpos:c.start()]
                if not re.search(r"_\s*=>\s*\{\s*parser\s*\.\s*$", pre):
                    bad.append("%s: recovery call is not the `_ =>` arm of `match tag`" % who)
    res["samples"].append("gen-taglist: %d recovery call sites in the generated parsers" % nrec)
    if nrec < 20:
        res["undecided"].append("gen-taglist: only %d recovery call sites found (layout of specification.rs changed?)" % nrec)
    elif bad:
        res["undecided"].append("frame lost (A-GEN-C07): %s" % "; ".join(bad[:5]))
    else:
        res["obligations"] = 1
        res["discharged"] = 1
        res["samples"].append("C07-frame::stoplist-is-the-tag-set-of-the-enclosing-block (mechanical scan of %d call sites)" % nrec)
    return res
