"""Extra check steps beyond Verus units (configured in contracts/props.json under "steps").

step := {"kind": "kani", "group": "c17", "complete": false}
  runs /verif/kani/run_kani.py <group> --tier <tier> --repo <repo>; its JSON result is folded into the evidence.
  complete == true  : loop-free harness over the full domain -> counted as discharged obligations (back end: Kani/CBMC)
  complete == false : bounded stand-in -> listed under coverage.bounded, never counted as proved
"""
import json
import os
import subprocess
import sys

from . import run as vrun

ROOT = vrun.ROOT


def run_step(step, pid, tier, seed):
    if step.get("kind") == "kani":
        return _kani(step, pid, tier)
    if step.get("kind") == "frame-strict":
        return _frame_strict(step)
    if step.get("kind") == "gen-scan":
        return _gen_scan(step)
    if step.get("kind") == "gen-fields":
        return _gen_fields(step)
    if step.get("kind") == "gen-taglist":
        return _gen_taglist(step)
    return {"undecided": ["unknown step kind %r" % step.get("kind")]}


def _kani(step, pid, tier):
    group = step["group"]
    # `kani_tier` pins the harness list of the group (e.g. the c17 group: only the harnesses measured to finish within the
    # memory limit are used; the larger ones exist in kani/loader_c17.rs and can be tried by hand with --tier thorough)
    cmd = [sys.executable, os.path.join(ROOT, "kani", "run_kani.py"), group, "--tier", step.get("kani_tier", tier), "--repo", vrun.REPO]
    if step.get("jobs"):
        cmd += ["--jobs", str(step["jobs"])]
    res = {"failures": [], "undecided": [], "bounded": [], "obligations": 0, "discharged": 0, "samples": [],
           "cmd": " ".join(cmd), "trusted": ["Kani 0.68 / CBMC 6.11 (bit-precise bounded model checking of the compiled real functions)"],
           "assumptions": []}
    try:
        p = subprocess.run(cmd, capture_output=True, text=True, timeout=step.get("timeout", 3600))
    except subprocess.TimeoutExpired:
        res["undecided"].append("kani group %s timed out" % group)
        return res
    try:
        k = p.stdout.index("{")
        doc = json.loads(p.stdout[k:])
    except Exception:
        res["undecided"].append("kani group %s produced no JSON (rc=%d): %s" % (group, p.returncode, (p.stderr or p.stdout)[-300:]))
        return res
    for h in doc.get("harnesses", []):
        name = "K-%s::%s" % (group, h.get("name"))
        complete = bool(h.get("complete")) and bool(step.get("complete", h.get("complete")))
        if h.get("status") == "success":
            if complete:
                res["obligations"] += 1
                res["discharged"] += 1
                res["samples"].append("%s (Kani, loop-free over the full domain: complete) %s" % (name, h.get("bound", "")))
            else:
                res["bounded"].append({"kind": "Kani bounded harness", "name": name, "bound": h.get("bound", ""),
                                       "seconds": h.get("seconds"), "status": "success"})
        elif h.get("status") == "failed":
            res["failures"].append({"obligation": name + "::assert", "kind": "kani", "function": h.get("name"),
                                    "where": "kani/%s" % group, "detail": h.get("failing_check", "")[:200],
                                    "rendered": json.dumps(h, indent=1)[:3000],
                                    "input": h.get("concrete_input")})
            if complete:
                res["obligations"] += 1
        else:
            res["undecided"].append("kani harness %s: %s" % (name, h.get("status")))
    return res


def _frame_strict(step):
    """C06 frame obligation (mechanical, DESIGN.md §4 C06 item 3): the parser consults `strict` at exactly one decision point.
    Scan of /repo/a2lfile/src: the field `strict` of ParserState is private, and the only expression that mentions `.strict`
    lies inside `fn error_or_log`. If that no longer holds the meta-argument A-C06 (strict and non-strict runs take the same path
    until the first error_or_log) does not apply any more: the step reports UNDECIDED ("frame lost"), never a violation."""
    import re
    from . import extract, rustlex
    res = {"failures": [], "undecided": [], "bounded": [], "obligations": 0, "discharged": 0, "samples": [],
           "cmd": "vf.steps frame-strict (token scan of a2lfile/src)", "trusted": ["vf/steps.py frame scan (rustlex tokens)"], "assumptions": []}
    src_dir = os.path.join(vrun.REPO, "a2lfile", "src")
    reads = []
    decl_private = None
    for root, _dirs, files in os.walk(src_dir):
        for fn in sorted(files):
            if not fn.endswith(".rs"):
                continue
            pth = os.path.join(root, fn)
            rel = os.path.relpath(pth, vrun.REPO)
            try:
                text = open(pth, encoding="utf-8").read()
            except Exception:
                continue
            if ".strict" not in text and "strict:" not in text:
                continue
            sf = rustlex.SourceFile(rel, text)
            ct = rustlex.code_tokens(rustlex.lex(text))
            for i, t in enumerate(ct):
                if t.kind == "ident" and t.text == "strict" and i > 0 and ct[i - 1].text == "." and not (i + 1 < len(ct) and ct[i + 1].text == "("):
                    # enclosing fn: nearest preceding `fn name` at lower offset (good enough for rustfmt-formatted sources)
                    encl = "?"
                    for j in range(i, 0, -1):
                        if ct[j].kind == "ident" and ct[j].text == "fn" and j + 1 < len(ct):
                            encl = ct[j + 1].text
                            break
                    reads.append((rel, sf.line_of(t.start), encl))
            if rel.endswith("parser.rs"):
                m = re.search(r"struct ParserState<'a> \{(.*?)\n\}", text, re.S)
                if m:
                    fm = re.search(r"^\s*((?:pub(?:\([a-z]+\))?\s+)?)strict\s*:\s*bool", m.group(1), re.M)
                    if fm is not None:
                        decl_private = fm.group(1).strip() == ""
    outside = [r for r in reads if r[2] != "error_or_log"]
    res["samples"].append("frame-strict: %d access(es) to `.strict`: %s; field private: %s" % (len(reads), reads[:6], decl_private))
    if decl_private is None:
        res["undecided"].append("frame-strict: declaration of ParserState.strict not found (frame of A-C06 lost)")
    elif not decl_private or outside or not reads:
        res["undecided"].append("frame lost: `strict` is no longer consulted at exactly one decision point (private: %s, accesses outside error_or_log: %s): "
                                "the meta-argument A-C06 does not apply to this tree" % (decl_private, outside[:4]))
    else:
        res["obligations"] = 1
        res["discharged"] = 1
        res["samples"].append("C06-frame::strict-single-decision-point (mechanical scan: private field, read only in error_or_log @ %s:%d)" % (reads[0][0], reads[0][1]))
    return res


def _gen_scan(step):
    """C03 frame of the generated parsers (mechanical): the `parse` / `parse_file` functions of specification.rs are not verified,
    but panic-freedom of loading composes through them only if they contain no panicking construct of their own. Token scan of
    every generated `fn parse`: no `unwrap`/`expect`/`panic!`/`unreachable!`/`assert!`, no arithmetic operator, no `as` cast, and no
    index expression other than `parser.filenames[parser.last_token_fileid]` (in range by the proved invariant ParserState::loc_ok).
    Loops are listed (their termination - each iteration consumes a token or ends the loop - is NOT checked here: assumption A-GEN).
    A construct outside this list makes the step UNDECIDED ("frame lost"), never a violation."""
    from . import rustlex
    res = {"failures": [], "undecided": [], "bounded": [], "obligations": 0, "discharged": 0, "samples": [],
           "cmd": "vf.steps gen-scan (token scan of the generated parse functions in a2lfile/src/specification.rs)",
           "trusted": ["vf/steps.py gen-scan (rustlex tokens)"], "assumptions": []}
    pth = os.path.join(vrun.REPO, "a2lfile", "src", "specification.rs")
    try:
        text = open(pth, encoding="utf-8").read()
    except Exception as e:
        res["undecided"].append("gen-scan: cannot read specification.rs: %r" % e)
        return res
    cut = text.find("#[cfg(test)]")
    sf = rustlex.SourceFile("a2lfile/src/specification.rs", text[:cut] if cut > 0 else text)
    nfn = 0
    bad = []
    loops = 0
    idx_ok = 0
    for it in sf.top:
        if it.kind != "impl":
            continue
        for ch in sf.children(it):
            if ch.kind != "fn" or ch.name not in ("parse", "parse_file"):
                continue
            nfn += 1
            body = sf.text[ch.body_open:ch.end]
            ct = rustlex.code_tokens(rustlex.lex(body))
            for i, t in enumerate(ct):
                k = None
                prev = ct[i - 1] if i > 0 else None
                if t.text == "[" and prev is not None and (prev.kind in ("ident", "num") or prev.text in (")", "]")) \
                        and prev.text not in ("vec", "return", "in", "mut"):
                    j = rustlex.match_close(ct, i)
                    inner = "".join(x.text for x in ct[i + 1:j])
                    base = "".join(x.text for x in ct[max(0, i - 3):i])
                    if base.endswith("parser.filenames") and inner == "parser.last_token_fileid":
                        idx_ok += 1
                    else:
                        k = "index `%s[%s]`" % (base, inner)
                elif t.kind == "ident" and t.text in ("unwrap", "expect", "unreachable", "panic", "unimplemented", "todo", "assert", "assert_eq"):
                    k = t.text
                elif t.kind == "ident" and t.text in ("loop", "while", "for"):
                    loops += 1
                elif t.kind == "punct" and t.text in ("+", "-", "*", "/", "%") and prev is not None and \
                        (prev.kind in ("ident", "num") or prev.text in (")", "]")) and i + 1 < len(ct) and ct[i + 1].text != ">":
                    k = "arithmetic `%s`" % t.text
                elif t.kind == "ident" and t.text == "as":
                    k = "`as` cast"
                if k:
                    bad.append("%s @ %s:%d" % (k, sf.path if hasattr(sf, "path") else "specification.rs", sf.line_of(ch.body_open + t.start)))
    res["samples"].append("gen-scan: %d generated parse functions, %d loops (termination assumed: A-GEN), %d index expressions `parser.filenames[parser.last_token_fileid]`" % (nfn, loops, idx_ok))
    if nfn < 100:
        res["undecided"].append("gen-scan: only %d generated parse functions found (layout of specification.rs changed?)" % nfn)
    elif bad:
        res["undecided"].append("frame lost: generated parse functions contain constructs that can panic and are not under contract: %s" % "; ".join(bad[:6]))
    else:
        res["obligations"] = 1
        res["discharged"] = 1
        res["samples"].append("C03-frame::generated-parsers-have-no-panicking-construct (mechanical scan of %d functions)" % nfn)
    return res


def _gen_fields(step):
    """C02 / C01 frame of the generated parse / stringify pairs (mechanical, assumption A-GEN made checkable): the cursor functions
    (U-CUR) are proved to return the value of the token they consume; that every consumed value ENDS UP IN THE MODEL and is WRITTEN
    FROM IT is a statement about generated code, checked here by a token scan of every generated `fn parse` and its `stringify`:
      (1) every top-level `let` binding of `parse` (the positional values with their layout records, the location / id values, the
          `let mut` accumulators of the sub-elements) occurs EXACTLY ONCE in the returned `Ok(Self { .. })` literal, except the
          end-tag identifier `ident`, which must be compared with `context.element` instead;
      (2) in every arm `"TAG" => { .. }` of the `match tag` the parsed `newitem` is stored exactly once, into an accumulator of (1),
          by `acc = Some(newitem)` or `acc.push(newitem)`, and every accumulator other than `a2lcomment` is the target of an arm;
      (3) every field of the `Self { .. }` literal other than `__block_info` is read as `self.<field>` in `stringify` of the same type;
      (4) the k-th positional value of `parse` is written by `stringify` together with the k-th layout record (`item_location.k`), and the
          literal lists the layout records in parse order;
      (5) a sub-element parsed in arm `"TAG"` is written exactly once, under `tag: "TAG"`, from the field it was stored in.
    A deviation is reported as UNDECIDED ("frame lost"), never as a violation; the bounded drivers of C01 / C02 supply the input."""
    from . import rustlex
    res = {"failures": [], "undecided": [], "bounded": [], "obligations": 0, "discharged": 0, "samples": [],
           "cmd": "vf.steps gen-fields (token scan of the generated parse / stringify functions in a2lfile/src/specification.rs)",
           "trusted": ["vf/steps.py gen-fields (rustlex tokens)"], "assumptions": []}
    pth = os.path.join(vrun.REPO, "a2lfile", "src", "specification.rs")
    try:
        text = open(pth, encoding="utf-8").read()
    except Exception as e:
        res["undecided"].append("gen-fields: cannot read specification.rs: %r" % e)
        return res
    cut = text.find("#[cfg(test)]")
    sf = rustlex.SourceFile("a2lfile/src/specification.rs", text[:cut] if cut > 0 else text)

    def type_of(it):
        h = sf.text[it.start:it.body_open] if hasattr(it, "body_open") and it.body_open else ""
        h = " ".join(h.split())
        if " for " in h:
            return h.split(" for ", 1)[1].split("{")[0].split("<")[0].strip()
        return h.replace("impl", "", 1).split("{")[0].split("<")[0].strip()

    parses, strs = {}, {}
    for it in sf.top:
        if it.kind != "impl":
            continue
        ty = type_of(it)
        for ch in sf.children(it):
            if ch.kind == "fn" and ch.name == "parse":
                parses[ty] = ch
            elif ch.kind == "fn" and ch.name == "stringify":
                strs[ty] = ch
    bad = []
    nfn = nlet = narm = nfield = npos = ntag = 0
    import re

    def top_level_lets(ct):
        """(names, index) of the `let` statements directly in the fn body (brace depth 1)"""
        out = []
        depth = 0
        for i, t in enumerate(ct):
            if t.kind == "punct" and t.text in ("{", "(", "["):
                depth += 1
            elif t.kind == "punct" and t.text in ("}", ")", "]"):
                depth -= 1
            elif depth == 1 and t.kind == "ident" and t.text == "let" and not (i > 0 and ct[i - 1].text in ("if", "while")):
                j = i + 1
                names = []
                if ct[j].text == "(":
                    e = rustlex.match_close(ct, j)
                    names = [x.text for x in ct[j + 1:e] if x.kind == "ident" and x.text not in ("mut", "ref")]
                else:
                    if ct[j].text == "mut":
                        j += 1
                    if ct[j].kind == "ident":
                        names = [ct[j].text]
                out.append((names, i, ct[i + 1].text == "mut"))
        return out

    for ty, ch in sorted(parses.items()):
        body = sf.text[ch.body_open:ch.end]
        if "Ok(Self {" not in body and "Ok(Self{" not in body:
            continue  # hand-written parse (A2ml, IfData): under contract in U-IFD / U-GEN, no generated literal
        nfn += 1
        ct = rustlex.code_tokens(rustlex.lex(body))
        where = "%s::parse @ specification.rs:%d" % (ty, sf.line_of(ch.start))
        # the returned literal
        lit = None
        for i in range(len(ct) - 3):
            if ct[i].text == "Ok" and ct[i + 1].text == "(" and ct[i + 2].text == "Self" and ct[i + 3].text == "{":
                lit = (i + 3, rustlex.match_close(ct, i + 3))
        if lit is None:
            bad.append("no `Ok(Self { .. })` literal in " + where)
            continue
        lit_idents = [x.text for x in ct[lit[0]:lit[1]] if x.kind == "ident"]
        lets = top_level_lets(ct)
        accs = set()
        allnames = [nme for names, _i, _m in lets for nme in names]
        for nme in sorted(set(allnames)):
            if allnames.count(nme) > 1:
                bad.append("binding `%s` is declared %d times (shadowing: a parsed value is discarded) in %s" % (nme, allnames.count(nme), where))
        for names, i, is_mut in lets:
            for nme in names:
                if nme == "ident":
                    if "context.element" not in body.replace(" ", ""):
                        bad.append("end tag identifier is not compared with context.element in " + where)
                    continue
                nlet += 1
                c = lit_idents.count(nme)
                flat = "".join(x.text + " " for x in ct)
                if c == 0 and is_mut and ("while ! %s " % nme) in flat:
                    continue  # the `done` flag of a sequence loop
                if c == 0 and nme.startswith("__tmp_required_"):
                    # a required sub-element: unwrapped once by `let X = if let Some(value) = __tmp_required_X { value } else { .. }`
                    if flat.count("if let Some ( value ) = %s {" % nme) == 1 and lit_idents.count(nme[len("__tmp_required_"):]) == 1:
                        if is_mut:
                            accs.add(nme)
                        continue
                if c != 1:
                    bad.append("binding `%s` occurs %d times in the returned literal of %s" % (nme, c, where))
                if is_mut:
                    accs.add(nme)
        # (2) the arms of `match tag`
        targets = set()
        arm_of = {}
        for i, t in enumerate(ct):
            if t.kind == "str" and i + 2 < len(ct) and ct[i + 1].text == "=" and ct[i + 2].text == ">" and ct[i + 3].text == "{":
                e = rustlex.match_close(ct, i + 3)
                arm = ct[i + 3:e]
                txt = [x.text for x in arm]
                if "newitem" not in txt:
                    continue
                narm += 1
                stores = []
                for k in range(len(arm) - 4):
                    if arm[k].kind == "ident" and arm[k + 1].text == "=" and arm[k + 2].text == "Some" and arm[k + 3].text == "(" and arm[k + 4].text == "newitem" \
                            and arm[k - 1].text not in (".", "let"):
                        stores.append(arm[k].text)
                    if arm[k].kind == "ident" and arm[k + 1].text == "." and arm[k + 2].text == "push" and arm[k + 3].text == "(" and arm[k + 4].text == "newitem":
                        stores.append(arm[k].text)
                if txt.count("newitem") != 2:
                    # binding + one store; anything else (a look-up that replaces an earlier element, a second copy, a conditional store)
                    # is a shape this scan does not understand
                    bad.append("arm %s of %s uses `newitem` %d times (expected: the binding and one store)" % (t.text, where, txt.count("newitem")))
                if len(stores) != 1 or stores[0] not in accs:
                    bad.append("arm %s of %s stores `newitem` %d time(s) (%s)" % (t.text, where, len(stores), ", ".join(stores)))
                else:
                    targets.add(stores[0])
                    arm_of[t.text] = stores[0]
        for a in sorted(accs - targets - {"a2lcomment"}):
            # accumulators of non-tagged parts (sequences `while !done`) are filled outside `match tag`: they must be pushed to somewhere
            if (a + ".push(") not in body.replace(" ", "") and (a + "=Some(") not in body.replace(" ", ""):
                bad.append("accumulator `%s` of %s is never filled" % (a, where))
        # (3) stringify reads every field of the literal
        fields = []
        depth = 0
        seg = ct[lit[0] + 1:lit[1]]
        k = 0
        while k < len(seg):
            x = seg[k]
            if x.kind == "punct" and x.text in ("{", "(", "["):
                depth += 1
            elif x.kind == "punct" and x.text in ("}", ")", "]"):
                depth -= 1
            elif depth == 0 and x.kind == "ident" and (k == 0 or seg[k - 1].text == ","):
                fields.append(x.text)
            k += 1
        st = strs.get(ty)
        if st is None:
            bad.append("no stringify for " + ty)
            continue
        sbody = sf.text[st.body_open:st.end].replace(" ", "").replace("\n", "")
        # (4) positional order: the k-th positional value of parse is written with the k-th layout record
        positional = [(names[0], names[1]) for names, _i, _m in lets
                      if len(names) == 2 and names[0].startswith("__") and names[0].endswith("_location")]
        for k, (locn, valn) in enumerate(positional):
            npos += 1
            hits = [m.start() for m in re.finditer(r"item_location\.%d(?!\d)" % k, sbody)]
            if not hits:
                bad.append("layout record %d (`%s`) of %s is not used by its stringify" % (k, valn, ty))
                continue
            owners = set()
            for h in hits:
                prev = [m.group(1) for m in re.finditer(r"self\.([A-Za-z_][A-Za-z_0-9]*)", sbody[:h]) if m.group(1) != "__block_info"]
                owners.add(prev[-1] if prev else None)
            if owners != {valn}:
                bad.append("layout record %d of %s belongs to `%s` in parse but is written with %s in stringify" % (k, ty, valn, sorted(map(str, owners))))
        # the literal lists the layout records in the order of parsing
        il = None
        for i2 in range(lit[0], lit[1] - 2):
            if ct[i2].text == "item_location" and ct[i2 + 1].text == ":":
                if ct[i2 + 2].text == "(":
                    e2 = rustlex.match_close(ct, i2 + 2)
                    il = [x.text for x in ct[i2 + 3:e2] if x.kind == "ident"]
                else:
                    il = [ct[i2 + 2].text] if ct[i2 + 2].kind == "ident" else []
        if positional and il is not None and il[:len(positional)] != [a for a, _b in positional]:
            bad.append("item_location of %s lists %s, parse order is %s" % (where, il[:len(positional)], [a for a, _b in positional]))
        # (5) tags: a sub-element parsed under "TAG" is written under "TAG"
        for tagtxt, acc in sorted(arm_of.items()):
            fld = acc[len("__tmp_required_"):] if acc.startswith("__tmp_required_") else acc
            ms = [m.start() for m in re.finditer(r"tag:" + re.escape(tagtxt) + r",", sbody)]
            ntag += 1
            if len(ms) != 1:
                bad.append("tag %s of %s is written %d times by stringify" % (tagtxt, ty, len(ms)))
                continue
            prev = [m.group(1) for m in re.finditer(r"self\.([A-Za-z_][A-Za-z_0-9]*)", sbody[:ms[0]]) if m.group(1) != "__block_info"]
            if not prev or prev[-1] != fld:
                bad.append("tag %s of %s is parsed into `%s` but written from `%s`" % (tagtxt, ty, fld, prev[-1] if prev else None))
        for f in fields:
            if f == "__block_info":
                continue
            nfield += 1
            if ("self." + f) not in sbody:
                bad.append("field `%s` of %s is not read by its stringify" % (f, ty))
    res["samples"].append("gen-fields: %d generated parse functions, %d top-level bindings, %d sub-element arms, %d fields, %d positional layout records and %d tags checked against stringify" % (nfn, nlet, narm, nfield, npos, ntag))
    if nfn < 100:
        res["undecided"].append("gen-fields: only %d generated parse functions found (layout of specification.rs changed?)" % nfn)
    elif bad:
        res["undecided"].append("frame lost: generated parse / stringify pairs deviate from 'every consumed value is stored once and written from the model': %s" % "; ".join(bad[:6]))
    else:
        res["obligations"] = 1
        res["discharged"] = 1
        res["samples"].append("C02-frame::generated-parsers-store-every-value-once-and-stringify-reads-every-field (mechanical scan of %d functions)" % nfn)
    return res


def _gen_taglist(step):
    """C07 frame of the generated block parsers (mechanical, assumption A-GEN-C07 made checkable): in every generated `fn parse`
    that recovers from unknown sub-elements, (1) the recovery call has the shape
    `parser.handle_unknown_taggedstruct_tag(context, tag, is_block, &TAG_LIST)`, (2) it stands in the `_ =>` arm of the
    `match tag { .. }` that dispatches the known sub-elements, and (3) the constant TAG_LIST declared in that function lists
    exactly the string literals of the other arms of that match - i.e. the stoplist handed to the recovery function is the set
    of tags the enclosing block really understands, which is what the proved exactness clause of the recovery function
    (U-CUR keyword_skip_exact) is relative to. A deviation is reported as UNDECIDED ("frame lost")."""
    import re
    from . import rustlex
    res = {"failures": [], "undecided": [], "bounded": [], "obligations": 0, "discharged": 0, "samples": [],
           "cmd": "vf.steps gen-taglist (scan of the generated parse functions in a2lfile/src/specification.rs)",
           "trusted": ["vf/steps.py gen-taglist (regular expressions over rustfmt-formatted generated code)"], "assumptions": []}
    pth = os.path.join(vrun.REPO, "a2lfile", "src", "specification.rs")
    try:
        text = open(pth, encoding="utf-8").read()
    except Exception as e:
        res["undecided"].append("gen-taglist: cannot read specification.rs: %r" % e)
        return res
    cut = text.find("#[cfg(test)]")
    sf = rustlex.SourceFile("a2lfile/src/specification.rs", text[:cut] if cut > 0 else text)
    nrec = 0
    bad = []
    for it in sf.top:
        if it.kind != "impl":
            continue
        for ch in sf.children(it):
            if ch.kind != "fn" or ch.name not in ("parse", "parse_file"):
                continue
            body = sf.text[ch.body_open:ch.end]
            calls = [m for m in re.finditer(r"handle_unknown_taggedstruct_tag\s*\(", body)]
            if not calls:
                continue
            who = " ".join(sf.text[it.start:it.body_open].split())[:60]
            for c in calls:
                nrec += 1
                args = re.match(r"handle_unknown_taggedstruct_tag\s*\(\s*context\s*,\s*tag\s*,\s*is_block\s*,\s*&TAG_LIST\s*,?\s*\)", body[c.start():c.start() + 200])
                if not args:
                    bad.append("%s: recovery call is not (context, tag, is_block, &TAG_LIST)" % who)
                    continue
                # the enclosing `match tag {` and its TAG_LIST constant: the nearest ones in front of the call
                mpos = body.rfind("match tag {", 0, c.start())
                tpos = body.rfind("const TAG_LIST", 0, c.start())
                if mpos < 0 or tpos < 0:
                    bad.append("%s: no `match tag` / TAG_LIST in front of the recovery call" % who)
                    continue
                tl = re.match(r"const TAG_LIST\s*:\s*\[&(?:'static )?str;\s*(\d+)usize\]\s*=\s*\[(.*?)\];", body[tpos:], re.S)
                if not tl:
                    bad.append("%s: TAG_LIST declaration not recognised" % who)
                    continue
                listed = re.findall(r'"((?:[^"\\]|\\.)*)"', tl.group(2))
                if len(listed) != int(tl.group(1)):
                    bad.append("%s: TAG_LIST length mismatch" % who)
                    continue
                arms = re.findall(r'^\s*"((?:[^"\\]|\\.)*)"\s*=>', body[mpos:c.start()], re.M)
                if sorted(arms) != sorted(listed):
                    bad.append("%s: TAG_LIST %s differs from the match arms %s" % (who, sorted(set(listed) - set(arms))[:3], sorted(set(arms) - set(listed))[:3]))
                    continue
                # the call must be the body of the wildcard arm
                pre = body[mpos:c.start()]
                if not re.search(r"_\s*=>\s*\{\s*parser\s*\.\s*$", pre):
                    bad.append("%s: recovery call is not the `_ =>` arm of `match tag`" % who)
    res["samples"].append("gen-taglist: %d recovery call sites in the generated parsers" % nrec)
    if nrec < 20:
        res["undecided"].append("gen-taglist: only %d recovery call sites found (layout of specification.rs changed?)" % nrec)
    elif bad:
        res["undecided"].append("frame lost (A-GEN-C07): %s" % "; ".join(bad[:5]))
    else:
        res["obligations"] = 1
        res["discharged"] = 1
        res["samples"].append("C07-frame::stoplist-is-the-tag-set-of-the-enclosing-block (mechanical scan of %d call sites)" % nrec)
    return res
