"""Extra check steps beyond Verus units (configured in contracts/props.json under "steps").

step := {"kind": "kani", "group": "c17", "complete": false}
  runs /verif/kani/run_kani.py <group> --tier <tier> --repo <repo>; its JSON result is folded into the evidence.
  complete == true  : loop-free harness over the full domain -> counted as discharged obligations (back end: Kani/CBMC)
  complete == false : bounded stand-in -> listed under coverage.bounded, never counted as proved
"""
import json
import os
import subprocess
import sys

from . import run as vrun

ROOT = vrun.ROOT


def run_step(step, pid, tier, seed):
    if step.get("kind") == "kani":
        return _kani(step, pid, tier)
    return {"undecided": ["unknown step kind %r" % step.get("kind")]}


def _kani(step, pid, tier):
    group = step["group"]
    cmd = [sys.executable, os.path.join(ROOT, "kani", "run_kani.py"), group, "--tier", tier, "--repo", vrun.REPO]
    res = {"failures": [], "undecided": [], "bounded": [], "obligations": 0, "discharged": 0, "samples": [],
           "cmd": " ".join(cmd), "trusted": ["Kani 0.68 / CBMC 6.11 (bit-precise bounded model checking of the compiled real functions)"],
           "assumptions": []}
    try:
        p = subprocess.run(cmd, capture_output=True, text=True, timeout=step.get("timeout", 3600))
    except subprocess.TimeoutExpired:
        res["undecided"].append("kani group %s timed out" % group)
        return res
    try:
        k = p.stdout.index("{")
        doc = json.loads(p.stdout[k:])
    except Exception:
        res["undecided"].append("kani group %s produced no JSON (rc=%d): %s" % (group, p.returncode, (p.stderr or p.stdout)[-300:]))
        return res
    for h in doc.get("harnesses", []):
        name = "K-%s::%s" % (group, h.get("name"))
        complete = bool(h.get("complete")) and bool(step.get("complete", h.get("complete")))
        if h.get("status") == "success":
            if complete:
                res["obligations"] += 1
                res["discharged"] += 1
                res["samples"].append("%s (Kani, loop-free over the full domain: complete) %s" % (name, h.get("bound", "")))
            else:
                res["bounded"].append({"kind": "Kani bounded harness", "name": name, "bound": h.get("bound", ""),
                                       "seconds": h.get("seconds"), "status": "success"})
        elif h.get("status") == "failed":
            res["failures"].append({"obligation": name + "::assert", "kind": "kani", "function": h.get("name"),
                                    "where": "kani/%s" % group, "detail": h.get("failing_check", "")[:200],
                                    "rendered": json.dumps(h, indent=1)[:3000],
                                    "input": h.get("concrete_input")})
            if complete:
                res["obligations"] += 1
        else:
            res["undecided"].append("kani harness %s: %s" % (name, h.get("status")))
    return res
