"""Closure baseline: `python3 -m vf.closures update` records, per unit and extracted function, how many closure
expressions WITHOUT a Verus contract the function contains on the tree the contracts were developed against
(contracts/closure_baseline.json, committed).

Why: Verus knows nothing about the result of a closure that carries no contract. If a later edit of /repo introduces a
new closure into a function under contract (`x.then_with(|| ..)`, `opt.map_or(.., |v| ..)`), a postcondition of that
function can fail although the code is right. Such failures are reported as UNDECIDED ("new closure without contract"),
never as a violation; the bounded driver then decides whether a real input fails.
"""
import json
import os
import sys

from . import extract

ROOT = os.path.dirname(os.path.dirname(os.path.abspath(__file__)))
PATH = os.path.join(ROOT, "contracts", "closure_baseline.json")


def load():
    try:
        with open(PATH) as f:
            return json.load(f)
    except Exception:
        return {}


SKIPPED_KEY = "//rewrites-skipped-at-baseline"
# Loop-carried locals (variables assigned inside a loop body and declared outside of it, rustlex.loop_carried) of every extracted
# function on the baseline tree. Why: Verus infers no loop invariant. If a later edit of /repo makes a loop carry a NEW variable
# (e.g. a second checkpoint that is advanced together with the first), nothing in the template constrains it, and an obligation
# behind the loop that depends on it fails although the code may be right. Such failures are reported as UNDECIDED ("new
# loop-carried variable without invariant"), never as a violation; the bounded driver then decides whether a real input fails.
LOOPVAR_KEY = "//loop-carried-at-baseline"


def loop_carried_of(u):
    # every extracted function is listed (empty list: no loop-carried local): a function the baseline does not know (new unit,
    # newly extracted item) is judged as always until `python3 -m vf.closures update` has been run
    return {f["name"]: f.get("loop_carried", []) for f in u.functions}


def update(repo="/repo"):
    base = {}
    skipped = {}
    loopvars = {}
    cdir = os.path.join(ROOT, "contracts")
    for fn in sorted(os.listdir(cdir)):
        if not fn.endswith(".vrs") or fn.startswith("."):
            continue
        unit = fn[:-4]
        u = extract.process(os.path.join(cdir, fn), repo, vacuity=False)
        hard = [w for w in getattr(u, "skipped_rewrites", []) if not w.get("optional")]
        if hard:
            raise SystemExit("%s: rewrite directives without a match on the baseline tree (typo or stale template): %r" % (unit, hard))
        base[unit] = {f["name"]: f.get("closures_unannotated", 0) for f in u.functions if f.get("closures_unannotated", 0)}
        lc = loop_carried_of(u)
        if lc:
            loopvars[unit] = lc
        # optional rewrites (alternative spellings a template anticipates) that have no match on the baseline tree: a rewrite
        # that is skipped HERE carries nothing into the committed proof, so its absence later is not a lost proof ingredient
        opt = sorted([w.get("item"), w.get("rule"), w.get("pattern")] for w in getattr(u, "skipped_rewrites", []))
        if opt:
            skipped[unit] = opt
    base[SKIPPED_KEY] = skipped
    base[LOOPVAR_KEY] = loopvars
    with open(PATH, "w") as f:
        json.dump(base, f, indent=1, sort_keys=True)
        f.write("\n")
    return base


if __name__ == "__main__":
    if len(sys.argv) > 1 and sys.argv[1] == "update":
        b = update(os.environ.get("VF_REPO", "/repo"))
        print("closure baseline: %d units (incl. the skipped-rewrite record), %d functions with contract-less closures" % (len(b), sum(len(v) for k, v in b.items() if k not in (SKIPPED_KEY, LOOPVAR_KEY))))
