"""Template-driven mechanical extraction of real functions from /repo into one Verus file.

A unit template (contracts/<unit>.vrs) is Verus source with directive lines:

    //@extract <repo-relative file> <selector>
    //@ attr            payload: lines emitted before the item (attributes)
    //@ spec            payload: inserted between the signature and the body '{'
    //@ loop N          payload: inserted between the header of the N-th loop (textual order) and its '{'
    //@ body-start      payload: inserted right after the body '{'   (ghost code only)
    //@ before N <txt>  payload: inserted before the line holding the N-th occurrence of <txt> (ghost only)
    //@ after N <txt>   payload: inserted after the line holding the N-th occurrence of <txt>  (ghost only)
    //@ loop-start N / loop-end N / before-loop N / after-loop N   payload (ghost only) at the start / end of the body of, before, after loop N
    //                  (structural anchors: robust against edits of individual statements)
    //@ ret <name>      rewrite `-> T` into `-> (<name>: T)`              (rule R9, names the result)
    //@ rewrite <rule> <count> "<from>" => "<to>"   textual rewrite inside the item, logged (rules R1..R8)
    //@ enumerate N [name]   rule R8: desugar `for (i, x) in E.enumerate()` (optionally naming the ghost iterator)
    //@ itername N name      rule R12: `for x in E` -> `for x in name: E` (Verus ghost iterator name)
    //@ fields a b c    (struct) projection: emit only these fields, types copied verbatim
    //@ strip-inner-attrs   drop `#[..]` attributes inside the item (rule R3)
    //@ keep-attrs      keep the item's outer attributes (default: dropped)
    //@ novacuity       do not add the must-fail assertion for this item (e.g. external_body)
    //@ stub            assumed contract: `external_body` and the body is dropped (`unimplemented!()`)
    //@ drop-tail-continue N   rule R16: remove `continue;` statements of loop N that are in tail position (checked)
    //@ body-end        ghost payload before the final line of the item (end of the function body)
    //@end

    selector := step (' :: ' step)*      step := 'fn NAME' | 'struct NAME' | 'enum NAME' | 'const NAME'
                                                | 'static NAME' | 'type NAME' | 'impl<..> header text'
    //@include <file relative to /verif>   textual include of shared Verus text (prelude)

Everything that is not a directive is copied through as hand-written specification text.
Executable tokens of extracted items are never edited except by `ret` and `rewrite`, and every such
application is returned in `rewrites` and printed in the evidence.
"""
import json
import os
import re

from . import rustlex
from .rustlex import SourceFile, norm_ws


class AnchorLost(Exception):
    """A function / loop / anchor named in a template does not exist (any more) in /repo."""


GHOST_PREFIX = ("proof", "let ghost", "assert", "broadcast use", "reveal", "//", "let tracked", "ghost")


class Out:
    def __init__(self):
        self.lines = []   # (text, origin)  origin = ('repo', file, line, item) | ('spec', tmpl, line, item)

    def add_text(self, text, origin_fn):
        """origin_fn(k) -> origin for k-th line of text"""
        parts = text.split("\n")
        for k, p in enumerate(parts):
            self.lines.append((p, origin_fn(k)))


class Unit:
    def __init__(self, name):
        self.name = name
        self.text = ""
        self.linemap = []       # index = output line-1 -> origin tuple
        self.functions = []     # dicts: name, file, line, has_spec, external_body, vacuity_lines
        self.rewrites = []      # dicts
        self.skipped_rewrites = []  # rewrite directives whose text was absent (item verified as written)
        self.dropped = []       # notes
        self.vacuity_expect = []  # (output_line, item)
        self.sources = set()
        self.properties = []
        self.ghost_lint = []


_sf_cache = {}


def load_source(repo, rel):
    key = (repo, rel)
    if key not in _sf_cache:
        p = os.path.join(repo, rel)
        if not os.path.exists(p):
            raise AnchorLost("source file missing: %s" % rel)
        with open(p, encoding="utf-8") as f:
            _sf_cache[key] = SourceFile(rel, f.read())
    return _sf_cache[key]


def parse_selector(sel):
    steps = []
    for st in sel.split(" :: "):
        st = st.strip()
        kind = st.split(None, 1)[0]
        if kind.startswith("impl"):
            steps.append(("impl", st))
        else:
            steps.append((kind, st.split(None, 1)[1].strip()))
    return steps


def item_label(steps):
    names = []
    for kind, name in steps:
        if kind == "impl":
            # short label: last type-ish word of header
            h = re.sub(r"<[^<>]*>", "", name)
            h = re.sub(r"<[^<>]*>", "", h)
            h = h.replace("impl", "", 1).strip()
            h = h.split(" where ")[0]
            if " for " in h:
                tr, ty = h.split(" for ", 1)
                names.append("%s as %s" % (ty.strip().lstrip("&'a ").replace("mut ", ""), tr.strip()))
            else:
                names.append(h.strip())
        else:
            names.append(name)
    return "::".join(names)


def process(template_path, repo, vacuity=False, verif_root=None, assume_mode=False):
    """assume_mode: used by `//@import <unit>` — only the export region of the template is emitted and every
    extracted fn is reduced to signature + contract with `#[verifier::external_body]` (its proof lives in
    the unit that owns the template)."""
    verif_root = verif_root or os.path.dirname(os.path.dirname(os.path.abspath(__file__)))
    unit = Unit(os.path.splitext(os.path.basename(template_path))[0])
    with open(template_path, encoding="utf-8") as f:
        tlines = f.read().split("\n")
    trel = os.path.relpath(template_path, verif_root)
    out = []  # (text, origin)

    def emit(text, origin):
        out.append((text, origin))

    i = 0
    n = len(tlines)
    exporting = not assume_mode
    while i < n:
        line = tlines[i]
        s = line.strip()
        if s == "//@export-begin":
            exporting = True
            i += 1
            continue
        if s == "//@export-end":
            exporting = not assume_mode
            i += 1
            continue
        if not exporting:
            if s.startswith("//@extract "):
                while i < n and tlines[i].strip() != "//@end":
                    i += 1
            i += 1
            continue
        if s.startswith("//@import "):
            iu = s.split()[1]
            sub = process(os.path.join(verif_root, "contracts", iu + ".vrs"), repo, vacuity=False,
                          verif_root=verif_root, assume_mode=True)
            for k, l in enumerate(sub.text.split("\n")):
                o = sub.linemap[k] if k < len(sub.linemap) else None
                emit(l, ("spec", "import:" + iu, k + 1, None))
            unit.imports = getattr(unit, "imports", []) + [iu]
            unit.sources |= sub.sources
            i += 1
            continue
        if s.startswith("//@bytelits "):
            # mechanically generated facts "the literal b"..." denotes these bytes" (Verus knows only the length)
            lits = json.loads("[" + s.split(None, 1)[1] + "]")
            names = []
            emit("pub mod bytelits { use vstd::prelude::*;", ("spec", trel, i + 1, None))
            for k, lit in enumerate(lits):
                nm = "axiom_bytelit_%d_%s" % (k, re.sub(r"[^A-Za-z0-9]", "_", lit))
                names.append(nm)
                esc = lit.replace("\\", "\\\\").replace('"', '\\"').replace("\r", "\\r").replace("\n", "\\n").replace("\t", "\\t")
                emit("pub broadcast axiom fn %s() ensures (#[trigger] b\"%s\"@) == seq![%s];" % (
                    nm, esc, ", ".join("0x%02Xu8" % b for b in lit.encode("utf-8"))), ("spec", trel, i + 1, None))
            emit("pub broadcast group group_bytelits { %s } }" % ", ".join(names), ("spec", trel, i + 1, None))
            emit("pub use bytelits::*;", ("spec", trel, i + 1, None))
            i += 1
            continue
        if s.startswith("//@strlits "):
            # mechanically generated facts "the literal "..." has these UTF-8 bytes"
            lits = json.loads("[" + s.split(None, 1)[1] + "]")
            names = []
            emit("pub mod strlits { use vstd::prelude::*; use vstd::string::StringSliceAdditionalSpecFns;", ("spec", trel, i + 1, None))
            for k, lit in enumerate(lits):
                nm = "axiom_strlit_%d_%s" % (k, re.sub(r"[^A-Za-z0-9]", "_", lit))
                names.append(nm)
                emit("pub broadcast axiom fn %s() ensures (#[trigger] (%s).spec_bytes()) == seq![%s];" % (
                    nm, json.dumps(lit), ", ".join("0x%02Xu8" % b for b in lit.encode("utf-8"))), ("spec", trel, i + 1, None))
            emit("pub broadcast group group_strlits { %s } }" % ", ".join(names), ("spec", trel, i + 1, None))
            emit("pub use strlits::*;", ("spec", trel, i + 1, None))
            i += 1
            continue
        if s.startswith("//@property"):
            unit.properties += s.split()[1:]
            i += 1
            continue
        if s.startswith("//@include "):
            inc = s.split(None, 1)[1].strip()
            with open(os.path.join(verif_root, inc), encoding="utf-8") as f:
                for k, l in enumerate(f.read().split("\n")):
                    emit(l, ("spec", inc, k + 1, None))
            i += 1
            continue
        if s.startswith("//@extract "):
            _, rel, sel = s.split(None, 2)
            # gather sub-directives
            subs = []  # (keyword, args, payload_lines, tmpl_line)
            i += 1
            while i < n and tlines[i].strip() != "//@end":
                l = tlines[i]
                ls = l.strip()
                if ls.startswith("//@"):
                    body = ls[3:].strip()
                    kw = body.split(None, 1)[0]
                    args = body.split(None, 1)[1] if len(body.split(None, 1)) > 1 else ""
                    subs.append([kw, args, [], i + 1])
                else:
                    if not subs:
                        raise ValueError("%s:%d: payload before sub-directive" % (trel, i + 1))
                    subs[-1][2].append(l)
                i += 1
            if i >= n:
                raise ValueError("%s: //@extract without //@end" % trel)
            i += 1  # skip //@end
            _extract_item(unit, out, repo, rel, sel, subs, trel, vacuity, assume_mode)
            continue
        if s.startswith("//@"):
            raise ValueError("%s:%d: unknown directive %s" % (trel, i + 1, s))
        emit(line, ("spec", trel, i + 1, None))
        i += 1
    unit.text = "\n".join(t for t, _ in out) + "\n"
    unit.linemap = [o for _, o in out]
    # fix up vacuity_expect (stored as marker strings)
    if vacuity:
        exp = []
        for ln, (t, o) in enumerate(out, start=1):
            m = re.search(r"/\*VACUITY:(.*?)\*/", t)
            if m:
                exp.append((ln, m.group(1)))
        unit.vacuity_expect = exp
    return unit


def _extract_item(unit, out, repo, rel, sel, subs, trel, vacuity, assume_mode=False):
    sf = load_source(repo, rel)
    unit.sources.add(rel)
    steps = parse_selector(sel)
    try:
        item = sf.find(steps)
    except KeyError as e:
        raise AnchorLost("anchor lost: %s (%s)" % (sel, e))
    label = item_label(steps)
    src = sf.text
    opts = {s[0] for s in subs}
    start = item.attrs_start if "keep-attrs" in opts else item.start
    end = item.end
    edits = []  # (offset, priority, text, tmpl_line)  insertion; or replacement (offset, end, text)
    repls = []

    def payload_text(pl):
        return "\n".join(pl)

    has_spec = False
    external = False
    loops = None
    if assume_mode and item.kind == "fn" and item.body_open is not None:
        subs = [x for x in subs if x[0] in ("spec", "ret", "attr", "keep-attrs")
                or (x[0] == "rewrite" and x[1].split()[0] in ("R13",))]
        opts = {x[0] for x in subs}
        if not any("external_body" in (x[1] + " ".join(x[2])) for x in subs if x[0] == "attr"):
            edits.append((start, 0, "#[verifier::external_body]\n", 0))
        repls.append((item.body_open, end, "{ unimplemented!() }", 0, "ASSUME", "<body>"))
    if "stub" in opts and item.kind == "fn" and item.body_open is not None and not assume_mode:
        # `//@ stub`: assumed contract, body dropped (for callees whose bodies do not type-check in single-file mode)
        edits.append((start, 0, "#[verifier::external_body]\n", 0))
        repls.append((item.body_open, end, "{ unimplemented!() }", 0, "ASSUME", "<body>"))
        external = True
        subs = [x for x in subs if x[0] in ("spec", "ret", "attr", "keep-attrs", "stub") or (x[0] in ("rewrite", "rewrite-re") and x[1].split()[0] in ("R13", "R14"))]
    for kw, args, pl, tl in subs:
        if kw in ("keep-attrs", "novacuity", "strip-inner-attrs"):
            continue
        if kw == "attr":
            txt = payload_text(pl) if pl else args
            if "external_body" in txt or "verifier::external" in txt:
                external = True
            edits.append((start, 0, txt + "\n", tl))
        elif kw == "spec":
            if item.body_open is None:
                raise AnchorLost("%s has no body for spec" % sel)
            has_spec = True
            edits.append((item.body_open, 0, "\n" + payload_text(pl) + "\n", tl))
        elif kw == "loop":
            if loops is None:
                loops = rustlex.loops_in(sf, item)
            k = int(args.split()[0])
            if k < 1 or k > len(loops):
                raise AnchorLost("loop %d of %s not found (function has %d loops)" % (k, sel, len(loops)))
            vac = "/*VACUITY:%s#loop%d*/ proof { assert(false); }" % (label, k) if (vacuity and "novacuity" not in opts) else ""
            edits.append((loops[k - 1][1], 0, "\n" + payload_text(pl) + "\n", tl))
            if vac:
                edits.append((loops[k - 1][1] + 1, 1, "\n" + vac + "\n", tl))
        elif kw == "body-start":
            _lint_ghost(unit, pl, trel, tl)
            edits.append((item.body_open + 1, 2, "\n" + payload_text(pl) + "\n", tl))
        elif kw in ("before", "after"):
            _lint_ghost(unit, pl, trel, tl)
            a = args.split(None, 1)
            k = int(a[0])
            anchor = a[1].strip()
            pos = _find_anchor(src, item, anchor, k, sel)
            if kw == "before":
                ls = src.rfind("\n", 0, pos) + 1
                edits.append((ls, 0, payload_text(pl) + "\n", tl))
            else:
                le = src.find("\n", pos)
                edits.append((le + 1, 0, payload_text(pl) + "\n", tl))
        elif kw == "ret":
            name = args.strip()
            rs, re_ = _find_ret(sf, item, sel)
            repls.append((rs, re_, "(%s: %s)" % (name, src[rs:re_].strip()), tl, "R9",
                          src[rs:re_].strip()))
        elif kw == "rewrite-re":
            # like rewrite, but <from> is a regular expression and <to> may use \1.. groups (logged with the matched text)
            # count `N` = exactly N matches; `N?` = N matches or none (the construct may have been replaced by one that
            # Verus can take as it is: the function is then verified without the outline)
            m = re.match(r'(\S+)\s+(\d+\??|\*)\s+("(?:[^"\\]|\\.)*")\s*=>\s*("(?:[^"\\]|\\.)*")\s*$', args)
            if not m:
                raise ValueError("%s:%d: bad rewrite-re directive" % (trel, tl))
            rule, frm, to = m.group(1), json.loads(m.group(3)), json.loads(m.group(4))
            found = [mm for mm in re.finditer(frm, src[start:end])]
            anycount = m.group(2) == "*"   # `*`: every occurrence, however many (a family of calls with one helper per form)
            optional = anycount or m.group(2).endswith("?")
            cnt = len(found) if anycount else int(m.group(2).rstrip("?"))
            if len(found) == 0 and (optional or not os.environ.get("VF_STRICT_REWRITES")):
                # the text the rule is about is not there (any more): the item is verified as it is written. Not applying a
                # rewrite never adds an assumption (an R11 outline that is not applied means its helper is not used).
                unit.skipped_rewrites.append({"rule": rule, "item": label, "file": rel, "pattern": frm, "optional": optional, "anycount": anycount})
                found = []
            elif len(found) != cnt:
                raise AnchorLost("rewrite-re %s in %s: expected %d matches of %r, found %d" % (rule, sel, cnt, frm, len(found)))
            for mm in found:
                repls.append((start + mm.start(), start + mm.end(), mm.expand(to), tl, rule, mm.group(0)))
        elif kw == "rewrite":
            m = re.match(r'(\S+)\s+(\d+)\s+("(?:[^"\\]|\\.)*")\s*=>\s*("(?:[^"\\]|\\.)*")\s*$', args)
            if not m:
                raise ValueError("%s:%d: bad rewrite directive" % (trel, tl))
            rule, cnt, frm, to = m.group(1), int(m.group(2)), json.loads(m.group(3)), json.loads(m.group(4))
            found = []
            p = src.find(frm, start)
            while p >= 0 and p + len(frm) <= end:
                found.append(p)
                p = src.find(frm, p + len(frm))
            if len(found) == 0 and not os.environ.get("VF_STRICT_REWRITES"):
                unit.skipped_rewrites.append({"rule": rule, "item": label, "file": rel, "pattern": frm, "optional": False})
            elif len(found) != cnt:
                raise AnchorLost("rewrite %s in %s: expected %d occurrences of %r, found %d" % (rule, sel, cnt, frm, len(found)))
            for p in found:
                repls.append((p, p + len(frm), to, tl, rule, frm))
        elif kw in ("fields", "variants"):
            pass
        elif kw in ("loop-end", "before-loop", "after-loop", "loop-start"):
            _lint_ghost(unit, pl, trel, tl)
            if loops is None:
                loops = rustlex.loops_in(sf, item)
            k = int(args.split()[0])
            if k < 1 or k > len(loops):
                raise AnchorLost("loop %d of %s not found" % (k, sel))
            kw_off, body_off = loops[k - 1]
            ct = sf.ct
            bo = [j for j in range(item.tok_lo, item.tok_hi) if ct[j].start == body_off][0]
            bc = rustlex.match_close(ct, bo)
            if kw == "loop-end":
                ls = src.rfind("\n", 0, ct[bc].start) + 1
                edits.append((ls, 3, payload_text(pl) + "\n", tl))
            elif kw == "loop-start":
                edits.append((body_off + 1, 2, "\n" + payload_text(pl) + "\n", tl))
            elif kw == "before-loop":
                ls = src.rfind("\n", 0, kw_off) + 1
                edits.append((ls, 0, payload_text(pl) + "\n", tl))
            else:
                le = src.find("\n", ct[bc].end)
                edits.append((le + 1, 0, payload_text(pl) + "\n", tl))
        elif kw == "drop-tail-continue":
            # rule R16: a `continue;` in tail position of loop N (nothing but closing braces and skipped else-branches
            # follows it up to the end of the loop body) is a no-op; Verus rejects `continue` in for loops.
            if loops is None:
                loops = rustlex.loops_in(sf, item)
            k = int(args.split()[0])
            if k < 1 or k > len(loops):
                raise AnchorLost("loop %d of %s not found" % (k, sel))
            kw_off, body_off = loops[k - 1]
            ct = sf.ct
            bo = [j for j in range(item.tok_lo, item.tok_hi) if ct[j].start == body_off][0]
            bc = rustlex.match_close(ct, bo)
            conts = [j for j in range(bo + 1, bc) if ct[j].kind == "ident" and ct[j].text == "continue"]
            if not conts:
                raise AnchorLost("R16: loop %d of %s has no `continue`" % (k, sel))
            for j in conts:
                if ct[j + 1].text != ";":
                    raise AnchorLost("R16: labelled continue in %s" % sel)
                q = j + 2
                while q < bc:
                    if ct[q].text == "}":
                        q += 1
                        while q < bc and ct[q].kind == "ident" and ct[q].text == "else":
                            q += 1
                            while ct[q].text != "{":   # `else if cond {`
                                if ct[q].text in ("(", "["):
                                    q = rustlex.match_close(ct, q)
                                q += 1
                            q = rustlex.match_close(ct, q) + 1
                    else:
                        raise AnchorLost("R16 not applicable: `continue` at %s:%d of %s is not in tail position" % (
                            rel, sf.line_of(ct[j].start), sel))
                repls.append((ct[j].start, ct[j + 1].end, "", tl, "R16", "continue;"))
        elif kw == "stub":
            pass
        elif kw == "body-end":
            _lint_ghost(unit, pl, trel, tl)
            ls = src.rfind("\n", 0, item.end - 1) + 1
            edits.append((ls, 0, payload_text(pl) + "\n", tl))
        elif kw == "itername":
            # rule R12: `for x in E` -> `for x in <name>: E` (names Verus' ghost iterator; no executable effect)
            if loops is None:
                loops = rustlex.loops_in(sf, item)
            k = int(args.split()[0])
            gname = args.split()[1]
            if k < 1 or k > len(loops):
                raise AnchorLost("loop %d of %s not found" % (k, sel))
            kw_off, body_off = loops[k - 1]
            header = src[kw_off:body_off]
            m = re.match(r"(for\s+.*?\s+in\s+)", header, re.S)
            if not m:
                raise AnchorLost("loop %d of %s is not a for loop" % (k, sel))
            edits.append((kw_off + m.end(1), 0, gname + ": ", tl))
            unit.rewrites.append({"rule": "R12", "item": label, "file": rel, "line": sf.line_of(kw_off),
                                  "from": header.strip(), "to": "ghost iterator named `%s`" % gname})
        elif kw == "enumerate":
            # rule R8: `for (i, x) in E.enumerate() { B }` -> `let mut i: usize = 0; for x in E { B; i += 1; }`
            if loops is None:
                loops = rustlex.loops_in(sf, item)
            k = int(args.split()[0])
            if k < 1 or k > len(loops):
                raise AnchorLost("loop %d of %s not found" % (k, sel))
            kw_off, body_off = loops[k - 1]
            header = src[kw_off:body_off]
            m = re.match(r"for\s*\(\s*([A-Za-z_][A-Za-z_0-9]*)\s*,\s*([^)]+?)\s*\)\s+in\s+(.*?)\s*\.enumerate\(\)\s*$", header, re.S)
            if not m:
                raise AnchorLost("loop %d of %s is not of the form `for (i, x) in E.enumerate()`: %r" % (k, sel, header))
            ivar, pat, expr = m.group(1), m.group(2), m.group(3)
            # find the closing brace of the loop body
            ct = sf.ct
            bo = [j for j in range(item.tok_lo, item.tok_hi) if ct[j].start == body_off][0]
            bc = rustlex.match_close(ct, bo)
            body_txt = src[body_off:ct[bc].end]
            if re.search(r"\bcontinue\b", body_txt):
                raise AnchorLost("R8 not applicable: loop %d of %s contains `continue`" % (k, sel))
            gname = args.split()[1] + ": " if len(args.split()) > 1 else ""
            newh = "let mut %s: usize = 0;\n        for %s in %s%s " % (ivar, pat, gname, expr)
            repls.append((kw_off, body_off, newh, tl, "R8", header.strip()))
            ls = src.rfind("\n", 0, ct[bc].start) + 1
            edits.append((ls, 5, "            %s += 1;\n" % ivar, tl))
            unit.rewrites.append({"rule": "R8", "item": label, "file": rel, "line": sf.line_of(ct[bc].start),
                                  "from": "}", "to": "%s += 1; }" % ivar})
        else:
            raise ValueError("%s:%d: unknown sub-directive %s" % (trel, tl, kw))

    if vacuity and has_spec and not external and "novacuity" not in opts and item.kind == "fn":
        edits.append((item.body_open + 1, 1, "\n/*VACUITY:%s*/ proof { assert(false); }\n" % label, 0))

    if item.kind == "enum" and "variants" in opts:
        want = []
        for kw, args, pl, tl in subs:
            if kw == "variants":
                want += args.split()
                for l in pl:
                    want += l.split()
        text = _project_enum(sf, item, want, sel)
        unit.dropped.append("enum %s: projection keeps variants %s" % (item.name, " ".join(want)))
        pre = "".join(txt for off, pr, txt, tl in edits if off == start)
        for k, l in enumerate((pre + text).split("\n")):
            out.append((l, ("repo", rel, sf.line_of(item.start), label)))
        return

    if item.kind == "struct" and "fields" in opts:
        fields = []
        for kw, args, pl, tl in subs:
            if kw == "fields":
                fields += args.split()
                for l in pl:
                    fields += l.split()
        text = _project_struct(sf, item, fields, sel)
        unit.dropped.append("struct %s: projection keeps fields %s" % (item.name, " ".join(fields)))
        pre = "".join(txt for off, pr, txt, tl in edits if off == start)
        for k, l in enumerate((pre + text).split("\n")):
            out.append((l, ("repo", rel, sf.line_of(item.start), label)))
        return

    if "strip-inner-attrs" in opts:
        ct = sf.ct
        k = item.tok_lo
        while k < item.tok_hi:
            if ct[k].kind == "punct" and ct[k].text == "#" and ct[k + 1].text == "[" and ct[k].start > item.start:
                c = rustlex.match_close(ct, k + 1)
                repls.append((ct[k].start, ct[c].end, "", 0, "R3", src[ct[k].start:ct[c].end]))
                k = c + 1
            else:
                k += 1

    for rs, re_, to, tl, rule, frm in repls:
        if rule == "ASSUME":
            continue
        unit.rewrites.append({"rule": rule, "item": label, "file": rel, "line": sf.line_of(rs),
                              "from": frm, "to": to})

    # assemble
    events = []
    for off, pr, txt, tl in edits:
        events.append((off, 0, pr, "ins", txt, tl, None))
    for rs, re_, to, tl, rule, frm in repls:
        events.append((rs, 1, 0, "rep", to, tl, re_))
    events.sort(key=lambda e: (e[0], e[1], e[2]))
    segs = []  # (text, kind, ref)  kind 'repo' ref=offset ; 'spec' ref=tmpl line
    cur = start
    for off, _o, _p, kind, txt, tl, re_ in events:
        if off < cur:
            raise ValueError("overlapping edits in %s" % sel)
        if off > cur:
            segs.append((src[cur:off], "repo", cur))
            cur = off
        segs.append((txt, "spec", tl))
        if kind == "rep":
            cur = re_
    if cur < end:
        segs.append((src[cur:end], "repo", cur))
    # to lines
    cur_line_txt = ""
    cur_origin = None
    for txt, kind, ref in segs:
        pos = 0
        for ch_i, part in enumerate(txt.split("\n")):
            if ch_i > 0:
                out.append((cur_line_txt, cur_origin or ("spec", trel, 0, label)))
                cur_line_txt = ""
                cur_origin = None
            if part:
                if kind == "repo":
                    o = ("repo", rel, sf.line_of(ref + pos), label)
                    # repo origin wins over spec for mixed lines
                    if cur_origin is None or cur_origin[0] == "spec":
                        cur_origin = o
                else:
                    if cur_origin is None:
                        cur_origin = ("spec", trel, ref, label)
                cur_line_txt += part
            pos += len(part) + 1
    out.append((cur_line_txt, cur_origin or ("spec", trel, 0, label)))

    if item.kind == "fn":
        from . import rustlex as _rl
        # executable text copied from the repository only (contract payloads and rewritten spans are template text)
        repo_text = " rewritten_span__ ".join(txt for txt, _k, _r in segs if _k == "repo")
        ctot, cun = _rl.count_closures(repo_text)
        unit.functions.append({"name": label, "file": rel, "line": sf.line_of(item.start),
                               "has_spec": has_spec, "external_body": external,
                               "loops_annotated": sum(1 for s in subs if s[0] == "loop"),
                               "closures": ctot, "closures_unannotated": cun,
                               # loop-carried locals of the executable text (see rustlex.loop_carried / vf/closures.py)
                               "loop_carried": _rl.loop_carried(repo_text)})


def _lint_ghost(unit, pl, trel, tl):
    for l in pl:
        s = l.strip()
        if not s:
            continue
        if s.startswith(GHOST_PREFIX) or s in ("}", "};") or s.startswith(("}", ")")):
            # first statement decides; nested lines of a proof block are not inspected
            return
        unit.ghost_lint.append("%s:%d: statement payload does not start with a ghost construct: %s" % (trel, tl, s))
        return


def _find_anchor(src, item, anchor, k, sel):
    body = src[item.body_open:item.end]
    na = norm_ws(anchor)
    count = 0
    off = item.body_open
    for l in body.split("\n"):
        if norm_ws(l).startswith(na) or (na in norm_ws(l) and anchor.startswith("~")):
            count += 1
            if count == k:
                return off + (len(l) - len(l.lstrip()))
        off += len(l) + 1
    raise AnchorLost("anchor %r (#%d) not found in %s" % (anchor, k, sel))


def _find_ret(sf, item, sel):
    ct = sf.ct
    # find '->' at depth 0 in the header tokens (after the parameter list)
    k = item.tok_lo
    # advance to 'fn'
    while ct[k].text != "fn":
        k += 1
    # skip generics & params
    while ct[k].text != "(":
        if ct[k].text == "<":
            k = rustlex._angle_skip(ct, k)
        else:
            k += 1
    k = rustlex.match_close(ct, k) + 1
    if not (ct[k].text == "-" and ct[k + 1].text == ">"):
        raise AnchorLost("%s has no return type" % sel)
    rs = ct[k + 1].end
    j = k + 2
    while True:
        t = ct[j]
        if t.kind == "ident" and t.text == "where":
            break
        if t.kind == "punct" and t.text == "{" and t.start == item.body_open:
            break
        if t.kind == "punct" and t.text in ("(", "["):
            j = rustlex.match_close(ct, j)
        j += 1
    re_ = ct[j - 1].end
    return rs, re_


def _project_enum(sf, item, want, sel):
    """keep only the named variants of an enum (verbatim text, inner attributes dropped)"""
    ct = sf.ct
    src = sf.text
    lo = [k for k in range(item.tok_lo, item.tok_hi) if ct[k].start == item.body_open][0]
    hi = item.tok_hi - 1
    found = {}
    k = lo + 1
    while k < hi:
        while ct[k].text == "#":
            k = rustlex.match_close(ct, k + 1) + 1
        vstart = k
        name = ct[k].text
        j = k + 1
        while j < hi and not (ct[j].kind == "punct" and ct[j].text == ","):
            if ct[j].kind == "punct" and ct[j].text in rustlex.OPEN:
                j = rustlex.match_close(ct, j)
            j += 1
        # strip attributes inside the variant body
        text = src[ct[vstart].start:ct[j - 1].end]
        text = re.sub(r"#\[[^\]]*\]\s*", "", text)
        found[name] = text
        k = j + 1
    lines = ["pub " + item.header.rstrip() + " {"] if not item.header.startswith("pub") else [item.header.rstrip() + " {"]
    for v in want:
        if v not in found:
            raise AnchorLost("variant %s of %s not found" % (v, sel))
        lines.append("    " + found[v] + ",")
    lines.append("}")
    return "\n".join(lines)


def _project_struct(sf, item, fields, sel):
    ct = sf.ct
    src = sf.text
    lo = None
    for k in range(item.tok_lo, item.tok_hi):
        if ct[k].start == item.body_open:
            lo = k
            break
    if lo is None:
        raise AnchorLost("%s is not a braced struct" % sel)
    hi = item.tok_hi - 1
    found = {}
    k = lo + 1
    while k < hi:
        # skip attrs
        while ct[k].text == "#":
            k = rustlex.match_close(ct, k + 1) + 1
        fstart = k
        if ct[k].text == "pub":
            k += 1
            if ct[k].text == "(":
                k = rustlex.match_close(ct, k) + 1
        name = ct[k].text
        assert ct[k + 1].text == ":", (sel, name)
        # type runs to ',' at depth 0 (angle aware)
        j = k + 2
        depth = 0
        while j < hi:
            t = ct[j]
            if t.kind == "punct":
                if t.text in ("(", "["):
                    j = rustlex.match_close(ct, j)
                elif t.text == "<":
                    depth += 1
                elif t.text == ">" and not (ct[j - 1].text == "-"):
                    depth -= 1
                elif t.text == "," and depth == 0:
                    break
            j += 1
        found[name] = src[ct[fstart].start:ct[j - 1].end]
        k = j + 1
    lines = ["pub " + item.header.rstrip() + " {"] if not item.header.startswith("pub") else [item.header.rstrip() + " {"]
    for f in fields:
        if f not in found:
            raise AnchorLost("field %s of %s not found" % (f, sel))
        lines.append("    " + found[f] + ",")
    lines.append("}")
    return "\n".join(lines)
