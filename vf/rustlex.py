"""Minimal Rust lexer + item locator used by the extractor.

Only what is needed to copy items *byte for byte* out of rustfmt-formatted source:
  * tokens with byte offsets (comments, strings, raw strings, chars vs lifetimes are recognised so
    that braces inside them are never counted),
  * brace/paren matching,
  * locating `fn`, `struct`, `enum`, `impl`, `const`, `static`, `type`, `trait` items at a given
    nesting level, and loops inside a function body.
No third-party packages.
"""
import re

IDENT_START = set("abcdefghijklmnopqrstuvwxyzABCDEFGHIJKLMNOPQRSTUVWXYZ_")
IDENT_CONT = IDENT_START | set("0123456789")


class Tok:
    __slots__ = ("kind", "text", "start", "end")

    def __init__(self, kind, text, start, end):
        self.kind = kind  # 'ident','punct','str','char','lifetime','num','comment','doc'
        self.text = text
        self.start = start
        self.end = end

    def __repr__(self):
        return "Tok(%s,%r,%d)" % (self.kind, self.text, self.start)


class LexError(Exception):
    pass


def lex(src):
    """Return list of Tok (comments included, whitespace dropped)."""
    toks = []
    i = 0
    n = len(src)
    while i < n:
        c = src[i]
        if c in " \t\r\n":
            i += 1
            continue
        if src.startswith("//", i):
            j = src.find("\n", i)
            if j < 0:
                j = n
            kind = "doc" if (src.startswith("///", i) and not src.startswith("////", i)) or src.startswith("//!", i) else "comment"
            toks.append(Tok(kind, src[i:j], i, j))
            i = j
            continue
        if src.startswith("/*", i):
            depth = 1
            j = i + 2
            while j < n and depth > 0:
                if src.startswith("/*", j):
                    depth += 1
                    j += 2
                elif src.startswith("*/", j):
                    depth -= 1
                    j += 2
                else:
                    j += 1
            if depth != 0:
                raise LexError("unterminated block comment at %d" % i)
            toks.append(Tok("comment", src[i:j], i, j))
            i = j
            continue
        # raw strings / byte strings / byte chars
        m = re.compile(r'(?:b|c)?r(#*)"').match(src, i)
        if m and (i == 0 or src[i - 1] not in IDENT_CONT):
            hashes = m.group(1)
            close = '"' + hashes
            j = src.find(close, m.end())
            if j < 0:
                raise LexError("unterminated raw string at %d" % i)
            j += len(close)
            toks.append(Tok("str", src[i:j], i, j))
            i = j
            continue
        if c == '"' or (c in "bc" and i + 1 < n and src[i + 1] == '"'):
            j = i + (1 if c == '"' else 2)
            while j < n and src[j] != '"':
                if src[j] == "\\":
                    j += 2
                else:
                    j += 1
            if j >= n:
                raise LexError("unterminated string at %d" % i)
            j += 1
            toks.append(Tok("str", src[i:j], i, j))
            i = j
            continue
        if c == "'" or (c == "b" and i + 1 < n and src[i + 1] == "'"):
            k = i + (1 if c == "'" else 2)
            # char literal: '\...' or 'x' followed by '
            if k < n and src[k] == "\\":
                j = k + 2
                while j < n and src[j] != "'":
                    j += 1
                j += 1
                toks.append(Tok("char", src[i:j], i, j))
                i = j
                continue
            if k + 1 < n and src[k + 1] == "'" and src[k] != "'":
                j = k + 2
                toks.append(Tok("char", src[i:j], i, j))
                i = j
                continue
            # multi-byte char literal e.g. 'é' : python str is unicode so handled above (one char)
            if c == "'":
                # lifetime
                j = k
                while j < n and src[j] in IDENT_CONT:
                    j += 1
                toks.append(Tok("lifetime", src[i:j], i, j))
                i = j
                continue
        if c in IDENT_START:
            j = i + 1
            while j < n and src[j] in IDENT_CONT:
                j += 1
            # raw identifier r#foo
            toks.append(Tok("ident", src[i:j], i, j))
            i = j
            continue
        if c.isdigit():
            j = i + 1
            while j < n and (src[j] in IDENT_CONT or (src[j] == "." and j + 1 < n and src[j + 1].isdigit())):
                j += 1
            toks.append(Tok("num", src[i:j], i, j))
            i = j
            continue
        toks.append(Tok("punct", c, i, i + 1))
        i += 1
    return toks


OPEN = {"{": "}", "(": ")", "[": "]"}
CLOSE = {"}": "{", ")": "(", "]": "["}


def code_tokens(toks):
    return [t for t in toks if t.kind not in ("comment", "doc")]


def match_close(ct, idx):
    """ct: code tokens; idx: index of an opening bracket; return index of its matching close."""
    depth = 0
    for j in range(idx, len(ct)):
        t = ct[j]
        if t.kind == "punct":
            if t.text in OPEN:
                depth += 1
            elif t.text in CLOSE:
                depth -= 1
                if depth == 0:
                    return j
    raise LexError("unbalanced bracket at %d" % ct[idx].start)


def norm_ws(s):
    """Whitespace-insensitive normal form used to compare impl headers / anchors."""
    return re.sub(r"\s+", "", s)


ITEM_KW = ("fn", "struct", "enum", "impl", "const", "static", "type", "trait", "mod", "union", "macro_rules")


class Item:
    def __init__(self, kind, name, header, start, body_open, end, tok_lo, tok_hi, attrs_start):
        self.kind = kind          # 'fn','struct',...
        self.name = name          # identifier (impl: normalised header text)
        self.header = header      # text from keyword to before '{' or ';'
        self.start = start        # byte offset of first token of the item (after attributes/visibility? no: incl. visibility & qualifiers)
        self.body_open = body_open  # byte offset of '{' (or None)
        self.end = end            # byte offset one past the closing '}' or ';'
        self.tok_lo = tok_lo
        self.tok_hi = tok_hi      # code token index range [lo, hi)
        self.attrs_start = attrs_start  # byte offset where outer attributes begin (== start if none)


def _angle_skip(ct, j):
    """ct[j] is '<' : return index after matching '>' (handles '->' and nested brackets)."""
    depth = 0
    k = j
    while k < len(ct):
        t = ct[k]
        if t.kind == "punct":
            if t.text == "<":
                depth += 1
            elif t.text == ">":
                if not (k > 0 and ct[k - 1].text == "-" and ct[k - 1].end == t.start):
                    depth -= 1
                    if depth == 0:
                        return k + 1
            elif t.text in OPEN:
                k = match_close(ct, k)
        k += 1
    raise LexError("unbalanced <")


def items_in(src, ct, lo, hi):
    """Yield Items found directly in token range [lo,hi) of ct (one nesting level)."""
    out = []
    i = lo
    while i < hi:
        t = ct[i]
        # collect attributes
        attrs_start_tok = i
        while i < hi and ct[i].kind == "punct" and ct[i].text == "#":
            j = i + 1
            if j < hi and ct[j].text == "!":
                j += 1
            if j < hi and ct[j].text == "[":
                i = match_close(ct, j) + 1
            else:
                break
        if i >= hi:
            break
        item_start_tok = i
        # qualifiers
        while i < hi and ct[i].kind == "ident" and ct[i].text in ("pub", "unsafe", "async", "extern", "default"):
            if ct[i].text == "pub" and i + 1 < hi and ct[i + 1].text == "(":
                i = match_close(ct, i + 1) + 1
            elif ct[i].text == "extern" and i + 1 < hi and ct[i + 1].kind == "str":
                i += 2
            else:
                i += 1
        if i < hi and ct[i].kind == "ident" and ct[i].text == "const" and i + 1 < hi and ct[i + 1].text in ("fn", "unsafe"):
            i += 1
            while ct[i].text == "unsafe":
                i += 1
        if i >= hi:
            break
        t = ct[i]
        if t.kind == "ident" and t.text in ITEM_KW:
            kw = t.text
            kw_tok = i
            # find end: first '{' or ';' at depth 0 (angle brackets skipped for impl/fn headers via paren matching only)
            j = i + 1
            name = None
            if kw == "macro_rules":
                # macro_rules ! name { ... }
                name = ct[i + 2].text
                j = i + 3
            elif kw != "impl":
                name = ct[j].text
            body_open = None
            while j < hi:
                tj = ct[j]
                if tj.kind == "punct":
                    if tj.text in ("(", "["):
                        j = match_close(ct, j) + 1
                        continue
                    if tj.text == "{":
                        body_open = j
                        break
                    if tj.text == ";":
                        break
                    if tj.text == "=" and kw in ("const", "static", "type"):
                        # skip initialiser to ';' at depth 0
                        k = j + 1
                        while k < hi and not (ct[k].kind == "punct" and ct[k].text == ";"):
                            if ct[k].kind == "punct" and ct[k].text in OPEN:
                                k = match_close(ct, k)
                            k += 1
                        j = k
                        break
                j += 1
            if j >= hi:
                raise LexError("item without end at %d" % t.start)
            if body_open is not None:
                close = match_close(ct, body_open)
                end_tok = close + 1
                # tuple struct / unit struct end with ';' handled above (no body_open)
                header = src[ct[kw_tok].start:ct[body_open].start]
                body_off = ct[body_open].start
                end_off = ct[close].end
            else:
                end_tok = j + 1
                header = src[ct[kw_tok].start:ct[j].start]
                body_off = None
                end_off = ct[j].end
            if kw == "impl":
                name = norm_ws(header)
            out.append(Item(kw, name, header, ct[item_start_tok].start, body_off, end_off,
                            item_start_tok, end_tok, ct[attrs_start_tok].start))
            i = end_tok
            continue
        if t.kind == "ident" and t.text == "use":
            while i < hi and not (ct[i].kind == "punct" and ct[i].text == ";"):
                if ct[i].kind == "punct" and ct[i].text in OPEN:
                    i = match_close(ct, i)
                i += 1
            i += 1
            continue
        # macro invocation item (e.g. a2l_specification!( ... );) or anything else: skip one token/bracket group
        if t.kind == "punct" and t.text in OPEN:
            i = match_close(ct, i) + 1
        else:
            i += 1
    return out


class SourceFile:
    def __init__(self, path, text):
        self.path = path
        self.text = text
        self.toks = lex(text)
        self.ct = code_tokens(self.toks)
        self.top = items_in(text, self.ct, 0, len(self.ct))
        # line starts
        self.line_starts = [0]
        for m in re.finditer("\n", text):
            self.line_starts.append(m.end())

    def line_of(self, off):
        import bisect
        return bisect.bisect_right(self.line_starts, off)

    def children(self, item):
        """Items nested directly in item's braces (impl / mod / trait)."""
        if item.body_open is None:
            return []
        # find token index of body open
        lo = None
        for k in range(item.tok_lo, item.tok_hi):
            if self.ct[k].start == item.body_open:
                lo = k
                break
        return items_in(self.text, self.ct, lo + 1, item.tok_hi - 1)

    def find(self, path):
        """path: list of (kind, name) steps, e.g. [('impl','impl<T>Foo<T>'),('fn','push')].
        Returns the unique Item or raises KeyError."""
        cands = self.top
        item = None
        for depth, (kind, name) in enumerate(path):
            nn = norm_ws(name) if kind == "impl" else name
            found = [it for it in cands if it.kind == kind and it.name == nn]
            if len(found) > 1 and kind == "impl" and depth + 1 < len(path):
                # several impl blocks with the same header: take the one that holds the next step's item
                k2, n2 = path[depth + 1]
                found = [it for it in found if any(c.kind == k2 and c.name == n2 for c in self.children(it))]
            if len(found) != 1:
                raise KeyError("%s: %s %s: %d matches" % (self.path, kind, name, len(found)))
            item = found[0]
            if depth + 1 < len(path):
                cands = self.children(item)
        return item


LOOP_KW = ("while", "for", "loop")


def loops_in(sf, item):
    """Return list of (kw_offset, body_open_offset) for the loops in a fn item, in textual order
    (closures and nested blocks included; nested fn items are not expected)."""
    ct = sf.ct
    lo = None
    for k in range(item.tok_lo, item.tok_hi):
        if ct[k].start == item.body_open:
            lo = k
            break
    out = []
    k = lo + 1
    hi = item.tok_hi - 1
    while k < hi:
        t = ct[k]
        if t.kind == "ident" and t.text in LOOP_KW:
            # `for` in `for<'a>` (HRTB) or `impl X for Y` does not occur inside fn bodies we extract;
            # guard anyway: a loop `for` is followed by a pattern and later `in`.
            if t.text == "for" and ct[k + 1].text == "<":
                k += 1
                continue
            j = k + 1
            while j < hi:
                tj = ct[j]
                if tj.kind == "punct" and tj.text in ("(", "["):
                    j = match_close(ct, j) + 1
                    continue
                if tj.kind == "punct" and tj.text == "{":
                    break
                j += 1
            out.append((t.start, ct[j].start))
        k += 1
    return out


_ASSIGN_OPS = {"+", "-", "*", "/", "%", "|", "&", "^"}


def loop_carried(src):
    """Names of local variables that are ASSIGNED inside a loop body (`x = e`, `x += e`, ...) but declared outside of it:
    the loop-carried state of a piece of Rust text (fn item). Field assignments (`a.b = e`) and `let` declarations
    inside the loop are not counted. Used by vf/run.py: a loop-carried variable that the verified tree did not have is
    not constrained by any invariant of the template (Verus infers none), so a failed obligation of that function is
    "needs invariant", not a violation. Heuristic on tokens."""
    try:
        ct = code_tokens(lex(src))
    except LexError:
        return []
    n = len(ct)
    out = set()
    k = 0
    while k < n:
        t = ct[k]
        if t.kind == "ident" and t.text in LOOP_KW and not (t.text == "for" and k + 1 < n and ct[k + 1].text == "<"):
            j = k + 1
            while j < n:
                tj = ct[j]
                if tj.kind == "punct" and tj.text in ("(", "["):
                    try:
                        j = match_close(ct, j) + 1
                    except LexError:
                        j = n
                    continue
                if tj.kind == "punct" and tj.text == "{":
                    break
                j += 1
            if j >= n:
                break
            try:
                e = match_close(ct, j)
            except LexError:
                break
            declared = set()
            assigned = set()
            i = j + 1
            while i < e:
                x = ct[i]
                if x.kind == "ident" and x.text == "let":
                    m = i + 1
                    while m < e and ct[m].kind == "ident" and ct[m].text in ("mut", "ref", "ghost", "tracked"):
                        m += 1
                    if m < e and ct[m].kind == "ident":
                        declared.add(ct[m].text)
                elif x.kind == "ident" and i + 1 < e and ct[i - 1].text not in (".", "let", "mut", "ref", ":", "'"):
                    a = ct[i + 1]
                    if a.kind == "punct" and a.text == "=":
                        nx = ct[i + 2] if i + 2 <= e else None
                        if not (nx is not None and nx.kind == "punct" and nx.text in ("=", ">") and nx.start == a.end):
                            assigned.add(x.text)
                    elif a.kind == "punct" and a.text in _ASSIGN_OPS and i + 2 < e and ct[i + 2].text == "=" \
                            and ct[i + 2].start == a.end and not (i + 3 <= e and ct[i + 3].text == "=" and ct[i + 3].start == ct[i + 2].end):
                        assigned.add(x.text)
                i += 1
            out |= (assigned - declared)
        k += 1
    return sorted(out)


_CLOSURE_PREV = {"(", ",", "=", "{", ";", "[", "move", "return", "else", "in"}


def count_closures(src):
    """(total, unannotated) closure expressions in a piece of Rust/Verus text. A closure is `|params| body` or
    `|| body` in expression position; it counts as annotated when it carries a Verus contract
    (`|x: T| -> (r: U) ensures ...`, rule R14). Heuristic on tokens (binary `|`/`||` and or-patterns follow an
    operand, closures follow `(`, `,`, `=`, `{`, `;`, `=>`, `move`, `return`)."""
    try:
        ct = code_tokens(lex(src))
    except LexError:
        return (0, 0)
    total = 0
    unann = 0
    i = 0
    n = len(ct)
    while i < n:
        t = ct[i]
        if t.kind == "punct" and t.text == "|":
            prev = ct[i - 1] if i > 0 else None
            start = prev is None or (prev.text in _CLOSURE_PREV and prev.kind in ("punct", "ident")) or \
                (prev.kind == "punct" and prev.text == ">" and i > 1 and ct[i - 2].text == "=" and ct[i - 2].end == prev.start)
            if start:
                # find the `|` closing the parameter list
                j = i + 1
                depth = 0
                while j < n:
                    x = ct[j]
                    if x.kind == "punct":
                        if x.text in OPEN:
                            depth += 1
                        elif x.text in CLOSE:
                            depth -= 1
                            if depth < 0:
                                break
                        elif x.text == "|" and depth == 0:
                            break
                    j += 1
                if j < n and ct[j].text == "|":
                    total += 1
                    ann = False
                    if j + 3 < n and ct[j + 1].text == "-" and ct[j + 2].text == ">" and ct[j + 3].text == "(":
                        k = match_close(ct, j + 3)
                        ann = k + 1 < n and ct[k + 1].text in ("ensures", "requires")
                    if not ann:
                        unann += 1
                    i = j + 1
                    continue
        i += 1
    return (total, unann)
