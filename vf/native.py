"""Native bounded drivers: build a scratch copy of /repo's current working tree with drivers/<PID>.rs as an
integration test and run it. Used (a) as the bounded stand-in for what the contracts do not reach and (b) to find a
concrete failing input on the real code when an obligation fails or the proof cannot be re-established.

The scratch copy lives at a fixed path under the system temp dir so that cargo can reuse its build between checks; it is
created on demand (nothing there is required to pre-exist) and synchronised from the repository on every run.
"""
import fcntl
import json
import os
import re
import shutil
import subprocess
import time

ROOT = os.path.dirname(os.path.dirname(os.path.abspath(__file__)))
BASE = os.environ.get("VF_NATIVE_DIR", "/tmp/vf-native-%d" % os.getuid())


def driver_path(pid):
    p = os.path.join(ROOT, "drivers", pid + ".rs")
    return p if os.path.exists(p) else None


def _sync(repo, dst):
    os.makedirs(dst, exist_ok=True)
    for name in ("Cargo.toml", "Cargo.lock"):
        src = os.path.join(repo, name)
        if os.path.exists(src):
            d = os.path.join(dst, name)
            if not os.path.exists(d) or open(src, "rb").read() != open(d, "rb").read():
                shutil.copy(src, d)
    for sub in ("a2lfile", "a2lmacros"):
        s = os.path.join(repo, sub)
        if not os.path.isdir(s):
            continue
        # checksum-based, NOT time-preserving: a file whose content changed gets a fresh mtime, so cargo rebuilds it
        # (with preserved times an older source would not invalidate a newer build of different content)
        r = subprocess.run(["rsync", "-rlc", "--delete", "--exclude", "target", "--exclude", "tests/vf_driver_*.rs",
                            s + "/", os.path.join(dst, sub) + "/"], capture_output=True, text=True)
        if r.returncode != 0:
            raise RuntimeError("rsync failed: " + r.stderr[-300:])


def _tree_hash(dst):
    import hashlib
    h = hashlib.sha256()
    for sub in ("Cargo.toml", "Cargo.lock", "a2lfile", "a2lmacros"):
        pth = os.path.join(dst, sub)
        if os.path.isfile(pth):
            h.update(open(pth, "rb").read())
            continue
        for root, dirs, files in os.walk(pth):
            dirs.sort()
            if "target" in dirs:
                dirs.remove("target")
            for f in sorted(files):
                if f.startswith("vf_driver_"):
                    continue
                fp = os.path.join(root, f)
                h.update(fp.encode())
                h.update(open(fp, "rb").read())
    return h.hexdigest()


def _force_rebuild_if_changed(dst):
    """cargo decides by mtime; make sure a tree whose CONTENT differs from the one last built is rebuilt"""
    marker = os.path.join(BASE, "built-tree-hash")
    cur = _tree_hash(dst)
    old = open(marker).read().strip() if os.path.exists(marker) else ""
    if cur != old:
        for rel in ("a2lfile/src/lib.rs", "a2lmacros/src/lib.rs"):
            fp = os.path.join(dst, rel)
            if os.path.exists(fp):
                os.utime(fp, None)
        with open(marker, "w") as f:
            f.write(cur)


def run_driver(pid, repo, tier="quick", seed=1, timeout=None):
    """returns dict: status ok|failing|build-error|timeout|none, failing (list of lines), summary, seconds, cmd"""
    dp = driver_path(pid)
    if dp is None:
        return {"status": "none"}
    timeout = timeout or (1500 if tier == "thorough" else 900)
    os.makedirs(BASE, exist_ok=True)
    t0 = time.time()
    with open(os.path.join(BASE, "lock"), "w") as lockf:
        fcntl.flock(lockf, fcntl.LOCK_EX)
        dst = os.path.join(BASE, "repo")
        try:
            _sync(repo, dst)
        except Exception as e:
            return {"status": "build-error", "detail": str(e), "seconds": round(time.time() - t0, 1)}
        _force_rebuild_if_changed(dst)
        tdir = os.path.join(dst, "a2lfile", "tests")
        os.makedirs(tdir, exist_ok=True)
        for f in os.listdir(tdir):
            if f.startswith("vf_driver_"):
                os.remove(os.path.join(tdir, f))
        tname = "vf_driver_" + pid
        shutil.copy(dp, os.path.join(tdir, tname + ".rs"))
        env = dict(os.environ, CARGO_TARGET_DIR=os.path.join(BASE, "target"), CARGO_NET_OFFLINE="true",
                   VF_BUDGET=tier, VF_SEED=str(seed), RUST_BACKTRACE="0")
        cmd = ["cargo", "test", "--offline", "-p", "a2lfile", "--test", tname, "--", "--nocapture", "--test-threads=1"]
        try:
            p = subprocess.run(cmd, cwd=dst, env=env, capture_output=True, text=True, timeout=timeout)
            out = p.stdout + "\n" + p.stderr
            rc = p.returncode
        except subprocess.TimeoutExpired as e:
            return {"status": "timeout", "seconds": round(time.time() - t0, 1), "cmd": " ".join(cmd)}
        finally:
            try:
                os.remove(os.path.join(tdir, tname + ".rs"))
            except OSError:
                pass
    failing = [l[l.index("FAILING-INPUT"):].strip() for l in out.split("\n") if "FAILING-INPUT" in l]
    summ = [l[l.index("DRIVER-SUMMARY"):].strip() for l in out.split("\n") if "DRIVER-SUMMARY" in l]
    res = {"seconds": round(time.time() - t0, 1), "cmd": " ".join(cmd) + " (VF_BUDGET=%s VF_SEED=%s)" % (tier, seed),
           "summary": summ[-1] if summ else "", "failing": failing[:5]}
    compiled = ("Running tests/" in out) or ("running " in out and "test result" in out) or bool(summ)
    if not compiled and rc != 0:
        res["status"] = "build-error"
        res["detail"] = "\n".join([l for l in out.split("\n") if l.startswith("error")][:6])
    elif failing:
        res["status"] = "failing"
    elif rc != 0:
        # the test binary failed without a FAILING-INPUT line (panic inside the driver itself): report but do not alarm
        res["status"] = "driver-error"
        res["detail"] = "\n".join(out.split("\n")[-15:])
    else:
        res["status"] = "ok"
    m = re.search(r"cases=(\d+)\s+distinct=(\d+)", res["summary"])
    if m:
        res["cases"] = int(m.group(1))
        res["distinct"] = int(m.group(2))
    return res
