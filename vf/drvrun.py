"""usage: python3 -m vf.drvrun <PID> [quick|thorough] [seed]  — run one native driver against $VF_REPO (default /repo)"""
import json, sys
from . import native, run as vrun
pid = sys.argv[1]
tier = sys.argv[2] if len(sys.argv) > 2 else "quick"
seed = int(sys.argv[3]) if len(sys.argv) > 3 else 1
r = native.run_driver(pid, vrun.REPO, tier, seed)
print(json.dumps({k: v for k, v in r.items() if k != "cmd"}, indent=1)[:3000])
