"""Run Verus on extracted units, classify the outcome, write evidence.

Exit codes of a check:  0 = every obligation discharged (known findings printed, if any)
                        1 = an obligation failed  -> `VIOLATION property=<id> replay=<path> [no-failing-input-found]`
                        2 = undecided: lost anchor, unsupported construct / type error in the generated
                            file, resource limit, vacuity guard tripped, tool failure. Never an alarm.
"""
import concurrent.futures as cf
import json
import os
import re
import shutil
import subprocess
import sys
import tempfile
import time

from . import extract

ROOT = os.path.dirname(os.path.dirname(os.path.abspath(__file__)))
REPO = os.environ.get("VF_REPO", "/repo")
VERUS = shutil.which("verus") or "/opt/veriftools/verus/verus"

KINDS = [
    ("postcondition not satisfied", "post"),
    ("post-condition of closure", "post"),
    ("precondition not satisfied", "pre"),
    ("precondition not met", "pre"),
    ("possible arithmetic underflow/overflow", "overflow"),
    ("possible bit shift underflow/overflow", "overflow"),
    ("invariant not satisfied at end of loop body", "inv-step"),
    ("invariant not satisfied before loop", "inv-entry"),
    ("decreases not satisfied", "decreases"),
    ("could not prove termination", "decreases"),
    ("assertion failed", "assert"),
    ("possible division by zero", "div-zero"),
    ("index out of bounds", "bounds"),
    ("unreachable", "unreachable"),
    ("recommendation not met", "recommends"),
    ("cannot show invariant holds", "inv"),
    ("loop invariant not satisfied", "inv"),
    ("may not terminate", "decreases"),
]

RESOURCE_MSGS = ("Resource limit (rlimit) exceeded", "resource limit", "timed out", "timeout")

TRUST_PATTERNS = [
    (re.compile(r"\bassume\s*\("), "assume"),
    (re.compile(r"\badmit\s*\("), "admit"),
    (re.compile(r"external_body"), "external_body"),
    (re.compile(r"\bassume_specification\b"), "assume_specification"),
    (re.compile(r"\baxiom fn\b"), "axiom"),
    (re.compile(r"verifier::external\b"), "external"),
    (re.compile(r"external_type_specification"), "external_type_specification"),
    (re.compile(r"\buninterp spec fn\b"), "uninterpreted"),
    (re.compile(r"\bunsafe\b"), "unsafe"),
]


def scan_trusted(text):
    out = []
    lines = text.split("\n")
    for k, l in enumerate(lines):
        s = l.strip()
        if s.startswith("//"):
            continue
        for pat, tag in TRUST_PATTERNS:
            if pat.search(l):
                desc = s
                if tag in ("external_body", "external", "external_type_specification"):
                    # describe by the next non-attribute line (the signature)
                    j = k + 1
                    while j < len(lines) and (lines[j].strip().startswith("#[") or not lines[j].strip()):
                        j += 1
                    if j < len(lines):
                        desc = s + " " + lines[j].strip()
                out.append("%s: %s" % (tag, desc[:200]))
                break
    # dedupe preserving order
    seen = set()
    res = []
    for o in out:
        if o not in seen:
            seen.add(o)
            res.append(o)
    return res


def run_verus(path, rlimit=None, extra=None, threads=None, timeout=None):
    # wall limit of one Verus run. On the unchanged tree the slowest unit needs ~2 min; on a tree that breaks MANY obligations of one
    # heavy function Verus re-solves the query once per reported error (U-MRG8 merge_modules: ~2 min per round, 10-12 rounds).
    timeout = timeout or int(os.environ.get("VF_VERUS_TIMEOUT", "3600"))
    cmd = [VERUS, path, "--output-json", "--time-expanded", "--multiple-errors", "20", "--error-format=json"]
    if rlimit:
        cmd += ["--rlimit", str(rlimit)]
    if threads:
        cmd += ["--num-threads", str(threads)]
    if extra:
        cmd += extra
    t0 = time.time()
    try:
        p = subprocess.run(cmd, cwd=os.path.dirname(path), capture_output=True, text=True, timeout=timeout)
    except subprocess.TimeoutExpired:
        return {"timeout": True, "cmd": cmd, "wall": time.time() - t0}
    res = {"rc": p.returncode, "cmd": cmd, "wall": time.time() - t0, "diags": [], "json": None, "raw_err": p.stderr[-4000:]}
    # stdout: JSON document (possibly preceded by other lines)
    try:
        k = p.stdout.index("{")
        res["json"] = json.loads(p.stdout[k:])
    except Exception:
        res["json"] = None
    for l in p.stderr.split("\n"):
        l = l.strip()
        if l.startswith("{") and '"$message_type"' in l:
            try:
                res["diags"].append(json.loads(l))
            except Exception:
                pass
    return res


def classify_diag(d):
    msg = d.get("message", "")
    for pat, kind in KINDS:
        if pat in msg:
            return kind
    return None


def map_span(unit, d):
    """primary span -> (origin tuple, generated line)"""
    spans = d.get("spans", [])
    prim = [s for s in spans if s.get("is_primary")] or spans
    if not prim:
        return None, None
    s = prim[0]
    ln = s["line_start"]
    if 1 <= ln <= len(unit.linemap):
        return unit.linemap[ln - 1], ln
    return None, ln


def item_of_line(unit, ln):
    """name of the extracted item enclosing generated line ln (walk back to a labelled line)"""
    k = ln - 1
    while k >= 0:
        o = unit.linemap[k]
        if o and o[3]:
            return o[3]
        k -= 1
    return None


def all_spans_items(unit, d):
    items = []
    for s in d.get("spans", []):
        ln = s["line_start"]
        if 1 <= ln <= len(unit.linemap):
            o = unit.linemap[ln - 1]
            if o and o[3] and o[3] not in items:
                items.append(o[3])
    return items


def enclosing_fn(text_lines, ln):
    """fallback: find the `fn name` line above ln in the generated text"""
    for k in range(ln - 1, -1, -1):
        m = re.search(r"\bfn\s+([A-Za-z_0-9]+)", text_lines[k])
        if m and not text_lines[k].strip().startswith("//"):
            return m.group(1)
    return "?"


def _augment_template(tpath, repo, names, sources):
    """Auto-closure: the extracted code calls helpers that the template does not list (e.g. a refactoring outlined a new
    function). Returns template text with `//@extract` entries for them (verbatim, no contract: verified for safety,
    callers learn nothing about their result), or None if a name cannot be found."""
    from . import rustlex
    text = open(tpath, encoding="utf-8").read()
    add = []
    for name in names:
        hit = None
        for rel in sources:
            try:
                sf = extract.load_source(repo, rel)
            except Exception:
                continue
            for it in sf.top:
                if it.kind == "fn" and it.name == name:
                    hit = "//@extract %s fn %s\n//@end\n" % (rel, name)
                    break
                if it.kind == "impl":
                    for ch in sf.children(it):
                        if ch.kind == "fn" and ch.name == name:
                            hdr = sf.text[it.start:it.body_open].strip()
                            hit = "%s {\n//@extract %s %s :: fn %s\n//@end\n}\n" % (hdr, rel, " ".join(hdr.split()), name)
                            break
                if hit:
                    break
            if hit:
                break
        if hit is None:
            return None
        add.append(hit)
    marker = "} // verus!"
    k = text.rfind(marker)
    if k < 0:
        return None
    return text[:k] + "// ---- auto-extracted helpers (not listed in the template; no contract) ----\n" + "".join(add) + text[k:]


def run_unit(unit_name, tier="quick", repo=None, workdir=None, rlimit_factor=1, _tpath=None, _round=0):
    """Extract + verify one unit (main and vacuity variants). Returns a result dict."""
    repo = repo or REPO
    res = {"unit": unit_name, "status": "ok", "failures": [], "undecided": [], "functions": [],
           "obligations": 0, "discharged": 0, "solver_ms": {}, "wall_s": 0.0, "rewrites": [], "dropped": [],
           "trusted": [], "vacuity_checked": 0, "cmd": "", "sources": []}
    t0 = time.time()
    tpath = _tpath or os.path.join(ROOT, "contracts", unit_name + ".vrs")
    gen_tmp = None
    gen = os.path.join(ROOT, "contracts", "gen_%s.py" % unit_name)
    if _tpath is None and os.path.exists(gen):
        # a unit with a template GENERATOR (contracts/gen_<unit>.py): the template (which items, which loop payloads) is derived
        # from the tree under test on every run, so a new generated function cannot be missed; the function texts themselves
        # are copied by the extractor as always. A construct the generator does not know makes the unit undecided.
        gdir = os.path.join(ROOT, "contracts", ".gen%d_%s" % (os.getpid(), unit_name))
        os.makedirs(gdir, exist_ok=True)
        gp = subprocess.run([sys.executable, gen, "--repo", repo, "--out-dir", gdir, "--name", unit_name],
                            capture_output=True, text=True)
        cand = os.path.join(gdir, unit_name + ".vrs")
        if gp.returncode != 0 or not os.path.exists(cand):
            shutil.rmtree(gdir, ignore_errors=True)
            res["status"] = "undecided"
            res["undecided"].append("template generator %s failed on this tree: %s" % (os.path.basename(gen), (gp.stderr or gp.stdout)[-300:]))
            return res
        gen_tmp = os.path.join(ROOT, "contracts", ".gen%d_%s.vrs" % (os.getpid(), unit_name))
        shutil.move(cand, gen_tmp)
        shutil.rmtree(gdir, ignore_errors=True)
        tpath = gen_tmp
    try:
        return _run_unit_inner(unit_name, tier, repo, workdir, rlimit_factor, tpath, _round, res, t0)
    finally:
        if gen_tmp:
            try:
                os.remove(gen_tmp)
            except OSError:
                pass


def _run_unit_inner(unit_name, tier, repo, workdir, rlimit_factor, tpath, _round, res, t0):
    try:
        u = extract.process(tpath, repo, vacuity=False)
        uv = extract.process(tpath, repo, vacuity=True)
    except extract.AnchorLost as e:
        res["status"] = "undecided"
        res["undecided"].append("anchor lost: %s" % e)
        return res
    except Exception as e:  # lexer errors etc.
        res["status"] = "undecided"
        res["undecided"].append("extraction failed: %r" % e)
        return res
    own = workdir is None
    workdir = workdir or tempfile.mkdtemp(prefix="vf-%s-" % unit_name)
    try:
        base = unit_name.replace("-", "_")
        mp = os.path.join(workdir, base + ".rs")
        vdir = os.path.join(workdir, "vac")
        os.makedirs(vdir, exist_ok=True)
        vp = os.path.join(vdir, base + ".rs")
        with open(mp, "w") as f:
            f.write(u.text)
        with open(vp, "w") as f:
            f.write(uv.text)
        rl = (10 * rlimit_factor) if rlimit_factor != 1 else None
        with cf.ThreadPoolExecutor(max_workers=2) as ex:
            fm = ex.submit(run_verus, mp, rl, None, 8)
            fv = ex.submit(run_verus, vp, rl, None, 8)
            m = fm.result()
            v = fv.result()
        res["cmd"] = " ".join(["verus", "<extracted %s.rs>" % base] + m.get("cmd", [])[2:])
        res["functions"] = u.functions
        res["rewrites"] = u.rewrites
        res["skipped_rewrites"] = [w for w in getattr(u, "skipped_rewrites", []) if not w.get("optional")]
        res["dropped"] = u.dropped
        res["trusted"] = scan_trusted(u.text)
        res["sources"] = sorted(u.sources)
        res["ghost_lint"] = u.ghost_lint
        _classify_main(res, u, m)
        # auto-closure over helper functions the template does not know (refactorings that outline code)
        if res["status"] == "undecided" and _round < 3:
            missing = []
            for d in m.get("diags", []):
                mm = re.search(r"cannot find function `([A-Za-z_0-9]+)` in this scope", d.get("message", "")) or \
                    re.search(r"no (?:method|function or associated item) named `([A-Za-z_0-9]+)` found", d.get("message", ""))
                if mm and mm.group(1) not in missing:
                    missing.append(mm.group(1))
            if missing:
                aug = _augment_template(tpath, repo, missing, sorted(u.sources))
                if aug is not None:
                    ap = os.path.join(workdir, "aug%d_%s.vrs" % (_round, unit_name))
                    # keep it next to the real templates so relative includes/imports resolve
                    ap = os.path.join(ROOT, "contracts", ".aug%d_%d_%s.vrs" % (os.getpid(), _round, unit_name))
                    with open(ap, "w") as f:
                        f.write(aug)
                    try:
                        r2 = run_unit(unit_name, tier, repo, None, rlimit_factor, _tpath=ap, _round=_round + 1)
                    finally:
                        try:
                            os.remove(ap)
                        except OSError:
                            pass
                    r2.setdefault("auto_extracted", [])
                    r2["auto_extracted"] = missing + r2["auto_extracted"]
                    # a helper without contract cannot be judged modularly: obligations that fail inside it are
                    # "needs contract", not violations (the bounded driver decides whether a real input fails)
                    # ... and so is an obligation of a function that CALLS such a helper: Verus knows nothing about the helper's
                    # result, so e.g. a postcondition about a value that now flows through the helper cannot be proved although
                    # the code may be right ("needs contract"). Callers are found in the first-round text (same function texts).
                    callers = set()
                    try:
                        pat = re.compile(r"\b(%s)\s*\(" % "|".join(re.escape(n) for n in missing))
                        for k, line in enumerate(u.text.split("\n")):
                            if pat.search(line) and k < len(u.linemap) and u.linemap[k] and u.linemap[k][0] == "repo" and u.linemap[k][3]:
                                callers.add(u.linemap[k][3])
                    except Exception:
                        callers = set()
                    r2.setdefault("auto_callers", [])
                    r2["auto_callers"] = sorted(callers | set(r2["auto_callers"]))
                    keep = []
                    for f in r2["failures"]:
                        if (f.get("function") or "").split("::")[-1] in r2["auto_extracted"]:
                            r2["undecided"].append("obligation %s at %s %s fails inside the new helper `%s`, which has no contract (auto-extracted)" % (
                                f["kind"], f.get("where", ""), f.get("detail", ""), f.get("function")))
                        elif f.get("function") in r2["auto_callers"]:
                            r2["undecided"].append("obligation %s at %s fails in `%s`, which calls the new helper(s) %s that have no contract (auto-extracted): needs contract" % (
                                f["obligation"], f.get("where", ""), f.get("function"), ", ".join(missing)))
                        else:
                            keep.append(f)
                    r2["failures"] = keep
                    if r2["undecided"] and not keep:
                        r2["status"] = "undecided"
                    return r2
        if res["status"] == "undecided" and any("rlimit" in x for x in res["undecided"]) and rlimit_factor == 1:
            # retry once with 4x resource limit
            r2 = run_unit(unit_name, tier, repo, None, rlimit_factor=4)
            r2["retried_rlimit"] = True
            return r2
        _classify_vacuity(res, uv, v)
    finally:
        if own and not os.environ.get("VF_KEEP"):
            shutil.rmtree(workdir, ignore_errors=True)
    res["wall_s"] = round(time.time() - t0, 2)
    return res


CONTRACT_CARRYING_RULES = ("R11", "R14", "R15", "R17", "R19")


def _classify_main(res, u, m):
    if m.get("timeout"):
        res["status"] = "undecided"
        res["undecided"].append("verus timed out")
        return
    j = m.get("json")
    diags = [d for d in m["diags"] if d.get("level") == "error"]
    vr = (j or {}).get("verification-results", {})
    text_lines = u.text.split("\n")
    verif_fail = []
    other = []
    rl_diags = []
    for d in diags:
        msg = d.get("message", "")
        if msg.startswith("aborting due to"):
            continue
        kind = classify_diag(d)
        if any(r in msg for r in RESOURCE_MSGS):
            rl_diags.append(d)
            continue
        if kind is None:
            other.append(d)
        else:
            verif_fail.append((kind, d))
    # Verus keeps searching for further errors after the first one (--multiple-errors); if that search runs out of resources
    # in a function that already has a DEFINITE failed obligation, the failure stands (the rlimit message is dropped). Only a
    # resource limit without any definite failure in that function leaves the function undecided.
    def _fn_of(d):
        o, ln = map_span(u, d)
        if not ln:
            return None
        f = item_of_line(u, ln) if (o and o[3]) else None
        if f is None:
            its = all_spans_items(u, d)
            f = its[0] if its else enclosing_fn(text_lines, ln)
        return f
    failed_fns = {_fn_of(d) for _k, d in verif_fail}
    for d in rl_diags:
        f = _fn_of(d)
        if f is not None and f in failed_fns:
            continue
        res["undecided"].append("rlimit: %s (%s)" % (d.get("message", ""), f))
        res["status"] = "undecided"
    if j is None or vr.get("encountered-vir-error") or (other and not vr.get("verified") and not verif_fail):
        res["status"] = "undecided"
        for d in other[:5]:
            o, ln = map_span(u, d)
            res["undecided"].append("unsupported construct / type error in generated file: %s (%s)" % (
                d.get("message", "")[:300], _fmt_origin(o, ln)))
        if j is None and not other:
            res["undecided"].append("verus produced no result: %s" % m.get("raw_err", "")[-500:])
        return
    if other:
        # compile-level errors next to verification results: undecided
        res["status"] = "undecided"
        for d in other[:5]:
            o, ln = map_span(u, d)
            res["undecided"].append("verus error: %s (%s)" % (d.get("message", "")[:300], _fmt_origin(o, ln)))
    res["obligations"] = int(vr.get("verified", 0)) + int(vr.get("errors", 0))
    res["discharged"] = int(vr.get("verified", 0))
    try:
        for mod in j["times-ms"]["smt"]["smt-run-module-times"]:
            for f in mod.get("function-breakdown", []):
                res["solver_ms"][f["function"]] = f["time"]
                if not f.get("success", True):
                    pass
    except Exception:
        pass
    for kind, d in verif_fail:
        o, ln = map_span(u, d)
        fn = None
        if ln:
            fn = item_of_line(u, ln) if (o and o[3]) else None
            if fn is None:
                its = all_spans_items(u, d)
                fn = its[0] if its else enclosing_fn(text_lines, ln)
        where = _fmt_origin(o, ln)
        callee = ""
        if kind == "pre" and ln:
            sp = [s for s in d.get("spans", []) if s.get("is_primary")]
            if sp and sp[0].get("text"):
                t = sp[0]["text"][0]
                callee = t["text"][t["highlight_start"] - 1:t["highlight_end"] - 1].strip()[:60]
        name = "%s::%s::%s" % (res["unit"], fn, kind)
        res["failures"].append({"obligation": name, "kind": kind, "function": fn, "where": where, "gen_line": ln,
                                "detail": callee, "rendered": d.get("rendered", "")[:3000]})
    # A failed `assert` that lives in the TEMPLATE (a ghost proof step written for the shape the code had) is not an
    # obligation of the property: Verus assumes it afterwards, and if every contract-level obligation of that function
    # (postcondition, callee preconditions, bounds, overflow, termination, loop invariants) is then discharged, what failed is
    # the proof script, not the code: the function is UNDECIDED ("proof step lost"), and the bounded driver decides whether a
    # real input fails. (Found by the harmless-refactoring evaluation: an equivalent rewrite of add_quoted_string failed one
    # ghost assert.) If any contract-level obligation of the function fails as well, the failure stands.
    by_fn = {}
    for f in res["failures"]:
        by_fn.setdefault(f.get("function"), []).append(f)
    for fn_name, fl in by_fn.items():
        if fl and all(f["kind"] == "assert" and "(contract text)" in f.get("where", "") for f in fl):
            for f in fl:
                res["failures"].remove(f)
                res["undecided"].append("proof step lost: ghost assertion of the template at %s fails in `%s` while every contract-level obligation of that "
                                        "function is discharged under it: the proof script needs maintenance (not a violation by itself)" % (f.get("where", ""), fn_name))
            res["status"] = "undecided"
    # a closure without contract that the verified tree did not have: Verus knows nothing about its result, so a failed
    # obligation in that function is "needs contract", not a violation (see vf/closures.py)
    try:
        from . import closures as _cl
        base = _cl.load().get(res["unit"], {})
    except Exception:
        base = {}
    newcl = {f["name"]: f.get("closures_unannotated", 0) for f in u.functions
             if f.get("closures_unannotated", 0) > base.get(f["name"], 0)}
    if newcl:
        keep = []
        for f in res["failures"]:
            if f.get("function") in newcl:
                res["undecided"].append("obligation %s at %s fails in `%s`, which now contains %d closure(s) without contract "
                                        "(verified tree: %d) - Verus knows nothing about their results: needs contract" % (
                                            f["obligation"], f.get("where", ""), f["function"], newcl[f["function"]],
                                            base.get(f["function"], 0)))
            else:
                keep.append(f)
        if len(keep) != len(res["failures"]):
            res["failures"] = keep
            res["status"] = "undecided"
    # a loop-carried local variable that the verified tree did not have (vf/closures.py LOOPVAR_KEY): no invariant of the template
    # constrains it and Verus infers none, so an obligation behind that loop can fail although the code is right ("needs
    # invariant"), e.g. a log checkpoint that is advanced together with the cursor checkpoint of the Sequence loop in
    # parse_ifdata_item and used to truncate the log after the loop. Not a violation by itself; the bounded driver decides.
    # (The rule is skipped when the committed baseline predates it.)
    try:
        base_all = _cl.load()
        base_lc = base_all.get(_cl.LOOPVAR_KEY)
    except Exception:
        base_lc = None
    if base_lc is not None:
        ubase = base_lc.get(res["unit"], {})
        newlv = {}
        for f in u.functions:
            if f["name"] not in ubase:
                continue  # not known to the baseline (new unit / newly extracted item): judged as always
            extra = sorted(set(f.get("loop_carried", [])) - set(ubase[f["name"]]))
            if extra:
                newlv[f["name"]] = extra
        if newlv:
            # Only obligations BEHIND the last assignment of such a variable (generated-file line order) and the function's
            # postconditions are downgraded: what fails in front of / at the assignment (an invariant of the loop, an overflow in
            # the assigned expression) is judged as always, so that a change which breaks the loop itself stays a violation.
            last_asg = {}
            for fname, names in newlv.items():
                pat = re.compile(r"(?<![\w.])(%s)\s*(?:[-+*/%%|&^])?=(?![=>])" % "|".join(re.escape(x) for x in names))
                for k, line in enumerate(text_lines):
                    if k < len(u.linemap) and u.linemap[k] and u.linemap[k][0] == "repo" and u.linemap[k][3] == fname \
                            and pat.search(line) and not re.search(r"\blet\b", line):
                        last_asg[fname] = k + 1
            keep = []
            for f in res["failures"]:
                fnm = f.get("function")
                if fnm in newlv and fnm in last_asg and (f.get("kind") == "post" or (f.get("gen_line") or 0) > last_asg[fnm]):
                    res["undecided"].append("obligation %s at %s fails in `%s`, whose loops now carry the variable(s) %s that the verified tree "
                                            "did not have - no invariant constrains them (Verus infers none): needs invariant" % (
                                                f["obligation"], f.get("where", ""), f["function"], ", ".join(newlv[f["function"]])))
                else:
                    keep.append(f)
            if len(keep) != len(res["failures"]):
                res["failures"] = keep
                res["status"] = "undecided"
    # a rewrite that carries an ASSUMED or PROVED contract into the function (R11 outline with an assumed specification, R14/R19
    # closure contract, R15 slicing helper, R17 defunctionalisation) and whose source text is gone: the function is verified as
    # written, WITHOUT the contract the committed proof rests on (e.g. `stoplist.iter().find(..)` replaced by
    # `stoplist.contains(..)`, of which the prelude knows only a conditional specification). If every obligation is discharged
    # anyway the result stands; a failed obligation in that function is "proof ingredient lost", not a violation - the same rule as
    # for a lost anchor. (Found by the harmless-refactoring evaluation, H8/refactor_1.)
    lost = {}
    try:
        base_skipped = {tuple(x) for x in _cl.load().get(_cl.SKIPPED_KEY, {}).get(res["unit"], [])}
    except Exception:
        base_skipped = set()
    for w in getattr(u, "skipped_rewrites", []):
        # (count `*` = "every occurrence, however many, including none": a family of spellings with one helper per form - a member
        # without a match is not a lost ingredient; what is left unrewritten is an unsupported std call, i.e. a compile-level "undecided")
        if w.get("rule") in CONTRACT_CARRYING_RULES and not w.get("anycount") \
                and (w.get("item"), w.get("rule"), w.get("pattern")) not in base_skipped:
            lost.setdefault(w.get("item"), []).append(w)
    if lost:
        keep = []
        for f in res["failures"]:
            ws = lost.get(f.get("function"))
            if ws:
                res["undecided"].append("obligation %s at %s fails in `%s`, where rewrite %s (%r) no longer applies: the contract it carried "
                                        "into the function is missing (proof ingredient lost, not a violation by itself)" % (
                                            f["obligation"], f.get("where", ""), f["function"], ws[0]["rule"], ws[0]["pattern"][:80]))
            else:
                keep.append(f)
        if len(keep) != len(res["failures"]):
            res["failures"] = keep
            res["status"] = "undecided"
    if res["failures"] and res["status"] != "undecided":
        res["status"] = "violation"
    # every function under contract must have been sent to the solver
    proved = set(res["solver_ms"].keys())
    for f in u.functions:
        if f["has_spec"] and not f["external_body"]:
            short = f["name"].split("::")[-1]
            if not any(p.endswith("::" + short) for p in proved):
                res["undecided"].append("function under contract not seen in solver breakdown: %s" % f["name"])
                if res["status"] == "ok":
                    res["status"] = "undecided"


def _classify_vacuity(res, uv, v):
    if not uv.vacuity_expect:
        return
    if v.get("timeout") or v.get("json") is None:
        res["undecided"].append("vacuity run produced no result")
        if res["status"] == "ok":
            res["status"] = "undecided"
        return
    failed_lines = set()
    for d in v["diags"]:
        if d.get("level") == "error" and "assertion failed" in d.get("message", ""):
            for s in d.get("spans", []):
                failed_lines.add(s["line_start"])
    missing = [name for ln, name in uv.vacuity_expect if ln not in failed_lines]
    res["vacuity_checked"] = len(uv.vacuity_expect) - len(missing)
    if missing and res["status"] == "ok":
        # only meaningful if the main run is clean (otherwise errors may be truncated)
        res["status"] = "undecided"
        for n in missing:
            res["undecided"].append("vacuity guard: `assert(false)` was provable in %s (contradictory requires/invariant)" % n)


def _fmt_origin(o, ln):
    if o is None:
        return "generated line %s" % ln
    if o[0] == "repo":
        return "%s:%d" % (o[1], o[2])
    return "%s:%d (contract text)" % (o[1], o[2])
