"""Self-test of the contracts: apply each committed semantic mutant to a scratch copy of /repo's sources and
require the property's check to turn from exit 0 into exit 1.  usage: python3 -m vf.mutants [PID ...]
A surviving mutant is a weakness of a contract (reported), not a violation of the code."""
import json
import os
import shutil
import subprocess
import sys
import tempfile

ROOT = os.path.dirname(os.path.dirname(os.path.abspath(__file__)))
REPO = os.environ.get("VF_REPO", "/repo")


def run(pids=None, jobs=4):
    import concurrent.futures as cf
    muts = []
    for fn in sorted(os.listdir(os.path.join(ROOT, "mutants"))):
        if fn.endswith(".json"):
            for m in json.load(open(os.path.join(ROOT, "mutants", fn))):
                if not pids or m["property"] in pids:
                    # `*-drv.json`: mutants written for the bounded driver of a property (code outside the contracts' reach):
                    # they are run with the driver switched on; all others must be killed by the contracts alone
                    m["_with_driver"] = fn.endswith("-drv.json")
                    muts.append(m)

    def one(m):
        d = tempfile.mkdtemp(prefix="vf-mut-")
        try:
            for sub in ("a2lfile/src",):
                shutil.copytree(os.path.join(REPO, sub), os.path.join(d, sub))
            p = os.path.join(d, m["file"])
            s = open(p).read()
            if s.count(m["from"]) != m.get("count", 1):
                return (m, "anchor-lost", "")
            s = s.replace(m["from"], m["to"])
            open(p, "w").write(s)
            env = dict(os.environ, VF_REPO=d, VF_EVIDENCE_DIR=os.path.join(d, "ev"))
            if not m.get("_with_driver"):
                env["VF_NO_DRIVER"] = "1"
            else:
                # the driver needs the whole workspace
                for extra in ("Cargo.toml", "Cargo.lock"):
                    shutil.copy(os.path.join(REPO, extra), os.path.join(d, extra))
                shutil.copytree(os.path.join(REPO, "a2lmacros"), os.path.join(d, "a2lmacros"), ignore=shutil.ignore_patterns("target"))
                for sub in ("Cargo.toml", "tests", "benches", "examples", "build.rs"):
                    sp = os.path.join(REPO, "a2lfile", sub)
                    if os.path.isdir(sp):
                        shutil.copytree(sp, os.path.join(d, "a2lfile", sub))
                    elif os.path.exists(sp):
                        shutil.copy(sp, os.path.join(d, "a2lfile", sub))
            r = subprocess.run([sys.executable, "-m", "vf.check", m["property"]], cwd=ROOT, env=env,
                               capture_output=True, text=True)
            st = {0: "survived", 1: "killed", 2: "undecided"}.get(r.returncode, "rc%d" % r.returncode)
            if st == "undecided" and not m.get("_with_driver") and not os.environ.get("VF_MUTANTS_NO_DRIVER_RETRY"):
                # the contracts alone leave it undecided (lost anchor / proof step lost / ...): the complete check (with the bounded
                # driver, as registered in MANIFEST.json) has the last word
                for extra in ("Cargo.toml", "Cargo.lock"):
                    shutil.copy(os.path.join(REPO, extra), os.path.join(d, extra))
                shutil.copytree(os.path.join(REPO, "a2lmacros"), os.path.join(d, "a2lmacros"), ignore=shutil.ignore_patterns("target"))
                for sub in ("Cargo.toml", "tests", "benches", "examples", "build.rs"):
                    sp = os.path.join(REPO, "a2lfile", sub)
                    if os.path.isdir(sp):
                        shutil.copytree(sp, os.path.join(d, "a2lfile", sub))
                    elif os.path.exists(sp):
                        shutil.copy(sp, os.path.join(d, "a2lfile", sub))
                env2 = dict(env)
                env2.pop("VF_NO_DRIVER", None)
                r2 = subprocess.run([sys.executable, "-m", "vf.check", m["property"]], cwd=ROOT, env=env2, capture_output=True, text=True)
                if r2.returncode == 1:
                    return (m, "killed", "(contracts alone: undecided; killed by the complete check with the driver)")
                return (m, "undecided", r.stdout[-400:] + "\n--- with driver: exit %d" % r2.returncode)
            return (m, st, r.stdout[-600:])
        finally:
            shutil.rmtree(d, ignore_errors=True)

    out = []
    with cf.ThreadPoolExecutor(max_workers=jobs) as ex:
        for m, st, log in ex.map(one, muts):
            print("%-9s %s %s%s" % (st, m["property"], m["name"], "  [by driver]" if log.startswith("(contracts alone") else ""))
            if st != "killed":
                print("    " + log.replace("\n", "\n    "))
            out.append({"name": m["name"], "property": m["property"], "result": st, "by": "driver" if log.startswith("(contracts alone") else "contracts"})
    return out


if __name__ == "__main__":
    res = run(sys.argv[1:] or None)
    bad = [r for r in res if r["result"] != "killed"]
    print("%d mutants, %d killed" % (len(res), len(res) - len(bad)))
    sys.exit(1 if bad else 0)
