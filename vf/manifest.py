"""Regenerate MANIFEST.json from contracts/props.json + manifest_meta.json (kept valid at all times)."""
import json
import os

ROOT = os.path.dirname(os.path.dirname(os.path.abspath(__file__)))


def main():
    props = json.load(open(os.path.join(ROOT, "contracts", "props.json")))
    meta = json.load(open(os.path.join(ROOT, "contracts", "manifest_meta.json")))
    ids = [json.loads(l)["id"] for l in open(os.path.join(ROOT, "properties.jsonl")) if l.strip()]
    checks = []
    na = []
    for pid in ids:
        if pid in props:
            c = props[pid]
            checks.append({
                "property_id": pid,
                "quick_cmd": "./check %s --tier quick" % pid,
                "thorough_cmd": "./check %s --tier thorough" % pid,
                "evidence_file": "/verif/evidence/%s.json" % pid,
                "replay_cmd_template": "cat {path}",
                "engine": "vf",
                "level_claimed": {"category": c.get("level", "proof"), "text": c["level_text"],
                                  "design_ref": c.get("design_ref", "DESIGN.md §4 " + pid)},
                "level_note": c["level_note"],
                "technique": c["technique"],
            })
        else:
            na.append({"property_id": pid, "reason": meta["not_applicable"].get(pid, "not built yet in this session; no check is claimed")})
    m = {
        "version": 1,
        "setup_cmd": meta["setup_cmd"],
        "hooks": meta["hooks"],
        "engines": [{"name": "vf", "path": "/verif/vf", "serves_properties": [c["property_id"] for c in checks],
                     "kind_free_text": "mechanical extraction of real functions from /repo + contracts spliced from contracts/*.vrs, discharged by Verus/Z3; Kani/CBMC for loop-free bit facts and bounded stand-ins"}],
        "checks": checks,
        "notes": meta.get("notes", ""),
        "not_applicable": na,
    }
    with open(os.path.join(ROOT, "MANIFEST.json"), "w") as f:
        json.dump(m, f, indent=1)
        f.write("\n")


if __name__ == "__main__":
    main()
