//! K-BYTES — the byte-assembly and scalar-value facts that unit U-LD (property C17) ASSUMES about std
//! (`prelude/ld_specs.rs`: A-LD-BYTES, A-LD-FROM-U32), checked against the compiled std functions.
//!
//! Injected by /verif/kani/run_kani.py into a scratch copy of the crate as
//! `#[cfg(kani)] #[path = "kani_k_bytes.rs"] mod kani_k_bytes;` at the end of `a2lfile/src/lib.rs`.
//! All harnesses are loop-free over fully symbolic inputs => COMPLETE (no bound).

/// A-LD-BYTES: u32::from_be_bytes / from_le_bytes = arithmetic value of the four bytes (all 2^32 arrays)
#[kani::proof]
fn k_bytes_u32() {
    let a: [u8; 4] = kani::any();
    let be = (a[0] as u64) * 0x100_0000 + (a[1] as u64) * 0x1_0000 + (a[2] as u64) * 0x100 + (a[3] as u64);
    let le = (a[3] as u64) * 0x100_0000 + (a[2] as u64) * 0x1_0000 + (a[1] as u64) * 0x100 + (a[0] as u64);
    assert!(u32::from_be_bytes(a) as u64 == be);
    assert!(u32::from_le_bytes(a) as u64 == le);
    kani::cover!(a[0] == 0xff && a[3] == 0x01);
}

/// A-LD-BYTES: u16::from_be_bytes / from_le_bytes (all 2^16 arrays)
#[kani::proof]
fn k_bytes_u16() {
    let a: [u8; 2] = kani::any();
    assert!(u16::from_be_bytes(a) as u32 == (a[0] as u32) * 0x100 + (a[1] as u32));
    assert!(u16::from_le_bytes(a) as u32 == (a[1] as u32) * 0x100 + (a[0] as u32));
    kani::cover!(a[0] == 0xfe && a[1] == 0xff);
}

/// A-LD-FROM-U32: char::from_u32(v) is Some exactly for Unicode scalar values, and then `c as u32 == v` (all u32)
#[kani::proof]
fn k_bytes_from_u32() {
    let v: u32 = kani::any();
    let scalar = v < 0xD800 || (0xE000 <= v && v <= 0x10FFFF);
    match std::char::from_u32(v) {
        Some(c) => {
            assert!(scalar);
            assert!(c as u32 == v);
        }
        None => assert!(!scalar),
    }
    kani::cover!(v == 0xD800);
    kani::cover!(v == 0x10FFFF);
}

/// the Latin-1 reading used by the fallback (`b as char` has code b) (all 256 bytes)
#[kani::proof]
fn k_bytes_latin1() {
    let b: u8 = kani::any();
    assert!((b as char) as u32 == b as u32);
}
