//! K-DT — `checker::get_datatype_limits` returns the exact representable range of each A2L
//! data type.
//!
//! `get_datatype_limits` is private to `checker`, so /verif/kani/run_kani.py appends
//! `#[cfg(kani)] #[path = "kani_k_dt.rs"] mod kani_k_dt;` to the scratch copy's
//! `a2lfile/src/checker.rs` (child modules may call private items of the parent).
//!
//! Checked bit-for-bit (`f64::to_bits`), for every one of the 11 `DataType` variants:
//!   UBYTE  (u8::MIN as f64,  u8::MAX as f64)      SBYTE  (i8::MIN as f64,  i8::MAX as f64)
//!   UWORD  (u16::MIN as f64, u16::MAX as f64)     SWORD  (i16::MIN as f64, i16::MAX as f64)
//!   ULONG  (u32::MIN as f64, u32::MAX as f64)     SLONG  (i32::MIN as f64, i32::MAX as f64)
//!   A_UINT64 (u64::MIN as f64, u64::MAX as f64)   A_INT64 (i64::MIN as f64, i64::MAX as f64)
//!       NOTE: u64::MAX as f64 == 2^64 and i64::MAX as f64 == 2^63 (round-to-nearest); the source
//!       literals 18446744073709551615.0 / 9223372036854775807.0 round to the same doubles.
//!   FLOAT16_IEEE (-65504, 65504)   (largest finite binary16 = (2 - 2^-10) * 2^15)
//!   FLOAT32_IEEE (f32::MIN as f64, f32::MAX as f64)
//!   FLOAT64_IEEE (f64::MIN, f64::MAX)
//! The `expected` match has no wildcard arm: a new `DataType` variant breaks compilation of the
//! harness instead of silently escaping the check.
//! Loop-free; the variant is chosen by a symbolic index over all 11 => COMPLETE (no bound).

use super::get_datatype_limits;
use crate::specification::DataType;

const ALL: [DataType; 11] = [
    DataType::Ubyte,
    DataType::Sbyte,
    DataType::Uword,
    DataType::Sword,
    DataType::Ulong,
    DataType::Slong,
    DataType::AUint64,
    DataType::AInt64,
    DataType::Float16Ieee,
    DataType::Float32Ieee,
    DataType::Float64Ieee,
];

fn expected(dt: DataType) -> (f64, f64) {
    match dt {
        DataType::Ubyte => (u8::MIN as f64, u8::MAX as f64),
        DataType::Sbyte => (i8::MIN as f64, i8::MAX as f64),
        DataType::Uword => (u16::MIN as f64, u16::MAX as f64),
        DataType::Sword => (i16::MIN as f64, i16::MAX as f64),
        DataType::Ulong => (u32::MIN as f64, u32::MAX as f64),
        DataType::Slong => (i32::MIN as f64, i32::MAX as f64),
        DataType::AUint64 => (u64::MIN as f64, u64::MAX as f64),
        DataType::AInt64 => (i64::MIN as f64, i64::MAX as f64),
        // written from integers so that the expectation does not share a float literal parser path
        // with the source text `-6.5504e+4_f64`
        DataType::Float16Ieee => ((-65504i32) as f64, 65504i32 as f64),
        DataType::Float32Ieee => (f32::MIN as f64, f32::MAX as f64),
        DataType::Float64Ieee => (f64::MIN, f64::MAX),
    }
}

/// K-DT: for every `DataType` variant, `get_datatype_limits(dt)` equals
/// `(T::MIN as f64, T::MAX as f64)` bit-for-bit (FLOAT16: (-65504, 65504)); additionally
/// lower < upper, both finite, and lower == -upper for the float types / lower == 0 for unsigned.
/// Bound: none (all 11 variants by symbolic index, loop-free). COMPLETE.
#[kani::proof]
fn k_dt_limits_exact() {
    let idx: usize = kani::any();
    kani::assume(idx < ALL.len());
    let dt = ALL[idx];
    let (lo, hi) = get_datatype_limits(dt);
    let (elo, ehi) = expected(dt);
    assert!(lo.to_bits() == elo.to_bits());
    assert!(hi.to_bits() == ehi.to_bits());
    assert!(lo.is_finite() && hi.is_finite());
    assert!(lo < hi);
    // every variant is really reached (anti-vacuity)
    kani::cover!(idx == 0);
    kani::cover!(idx == 7);
    kani::cover!(idx == 8);
    kani::cover!(idx == 10);
}

/// K-DT/table-distinct: the 11 entries of `ALL` are pairwise different variants, i.e. the symbolic
/// index above really ranges over the whole enum (guards against a copy/paste slip in this file).
/// Bound: none. COMPLETE.
#[kani::proof]
fn k_dt_all_variants_listed() {
    let i: usize = kani::any();
    let j: usize = kani::any();
    kani::assume(i < ALL.len() && j < ALL.len() && i != j);
    assert!(ALL[i] != ALL[j]);
}

// ---- K-LIM: bit-precise facts about `check_limits_valid` (property C12: "clearly inside" is accepted, a range that was not
// evaluated is never an error). Loop-free, all four f64 inputs fully symbolic (minus NaN / infinities where stated) => COMPLETE.
use super::check_limits_valid;

/// declared limits inside the calculated range (no tolerance needed) are always accepted
#[kani::proof]
fn k_lim_inside_is_accepted() {
    let e0: f64 = kani::any();
    let e1: f64 = kani::any();
    let c0: f64 = kani::any();
    let c1: f64 = kani::any();
    kani::assume(e0.is_finite() && e1.is_finite() && c0.is_finite() && c1.is_finite());
    kani::assume(e0 >= c0 && e1 <= c1);
    assert!(check_limits_valid((e0, e1), (c0, c1)));
    kani::cover!(e0 == c0 && e1 == c1);
}

/// a conversion that is not evaluated yields (f64::MIN, f64::MAX): every finite declaration passes
#[kani::proof]
fn k_lim_unevaluated_never_errors() {
    let e0: f64 = kani::any();
    let e1: f64 = kani::any();
    kani::assume(e0.is_finite() && e1.is_finite());
    assert!(check_limits_valid((e0, e1), (f64::MIN, f64::MAX)));
}

/// a declared lower limit below the calculated one by more than the tolerance is rejected (positive calculated lower limit,
/// declared at most half of it: far outside the 1e-6 tolerance)
#[kani::proof]
fn k_lim_clearly_below_is_rejected() {
    let e0: f64 = kani::any();
    let e1: f64 = kani::any();
    let c0: f64 = kani::any();
    let c1: f64 = kani::any();
    kani::assume(e0.is_finite() && e1.is_finite() && c0.is_finite() && c1.is_finite());
    kani::assume(c0 >= 1.0 && c0 <= 1.0e300 && e0 >= 0.0 && e0 <= c0 / 2.0);
    assert!(!check_limits_valid((e0, e1), (c0, c1)));
}
