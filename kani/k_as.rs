//! K-AS — the integer conversion used by `ParserState::get_integer` (parser.rs) for hexadecimal
//! literals: `num_u64.as_()` with `u64: num_traits::AsPrimitive<T>`.
//!
//! Injected by /verif/kani/run_kani.py into a scratch copy of the crate as
//! `#[cfg(kani)] #[path = "kani_k_as.rs"] mod kani_k_as;` at the end of `a2lfile/src/lib.rs`.
//!
//! Facts checked, for ALL `n: u64` and each T in {u8,u16,u32,u64,i8,i16,i32,i64}:
//!   (1) `AsPrimitive::<T>::as_(n) == n as T`                     (num-traits is a plain `as` cast)
//!   (2) unsigned T (N bits): `(n as T) as u64 == n & MASK_N`     (truncation)
//!   (3) signed T (N bits):   `((n as T) as uN) as u64 == n & MASK_N`   (same bit pattern), and the
//!       mathematical value: `(n as T) as i128 == if (n & MASK_N) >= 2^(N-1) { (n & MASK_N) - 2^N }
//!       else { n & MASK_N }`                                     (two's complement wrap-around)
//!   with MASK_N = 2^N - 1 (MASK_64 = u64::MAX).
//! Loop-free, `n` fully symbolic => COMPLETE (no bound).
//!
//! Spec text for Verus units (mathematical integers):
//!   as_unsigned(n, N) == n % 2^N
//!   as_signed(n, N)   == if n % 2^N >= 2^(N-1) { n % 2^N - 2^N } else { n % 2^N }

use num_traits::AsPrimitive;

/// Same generic shape as the call in `get_integer`: the conversion is reached only through the
/// `u64: AsPrimitive<T>` bound.
#[inline(never)]
fn via_as_primitive<T>(n: u64) -> T
where
    T: Copy + 'static,
    u64: AsPrimitive<T>,
{
    n.as_()
}

macro_rules! k_as_unsigned {
    ($name:ident, $t:ty, $bits:expr) => {
        /// K-AS (unsigned target): for all n: u64, `n.as_() == n as T` and `(n as T) as u64 == n & mask`.
        /// Bound: none. COMPLETE.
        #[kani::proof]
        fn $name() {
            let n: u64 = kani::any();
            let mask: u64 = if $bits == 64 { u64::MAX } else { (1u64 << ($bits % 64)) - 1 };
            let a: $t = via_as_primitive::<$t>(n);
            assert!(a == n as $t);
            assert!((n as $t) as u64 == n & mask);
            // value-preserving exactly when in range
            assert!(((n as $t) as u64 == n) == (n <= <$t>::MAX as u64));
        }
    };
}

macro_rules! k_as_signed {
    ($name:ident, $t:ty, $ut:ty, $bits:expr) => {
        /// K-AS (signed target): for all n: u64, `n.as_() == n as T`, the result has the bit pattern
        /// `n & mask`, and its mathematical value is the two's complement reading of these bits.
        /// Bound: none. COMPLETE.
        #[kani::proof]
        fn $name() {
            let n: u64 = kani::any();
            let mask: u64 = if $bits == 64 { u64::MAX } else { (1u64 << ($bits % 64)) - 1 };
            let a: $t = via_as_primitive::<$t>(n);
            assert!(a == n as $t);
            assert!(((n as $t) as $ut) as u64 == n & mask);
            let low: i128 = (n & mask) as i128;
            let half: i128 = 1i128 << ($bits - 1);
            let expect: i128 = if low >= half { low - (1i128 << $bits) } else { low };
            assert!((n as $t) as i128 == expect);
            // value-preserving exactly when in range
            assert!(((n as $t) as i128 == n as i128) == (n <= <$t>::MAX as u64));
        }
    };
}

k_as_unsigned!(k_as_u8, u8, 8);
k_as_unsigned!(k_as_u16, u16, 16);
k_as_unsigned!(k_as_u32, u32, 32);
k_as_unsigned!(k_as_u64, u64, 64);
k_as_signed!(k_as_i8, i8, u8, 8);
k_as_signed!(k_as_i16, i16, u16, 16);
k_as_signed!(k_as_i32, i32, u32, 32);
k_as_signed!(k_as_i64, i64, u64, 64);
