//! C17 — "The loaded model does not depend on the file's text encoding": BOUNDED Kani stand-ins
//! on the REAL `loader::decode_raw_bytes` and the REAL BOM-stripping tail of `loader::load`.
//!
//! Injection (done by /verif/kani/run_kani.py in a scratch copy, never in /repo):
//!   * this file is copied to `a2lfile/src/kani_loader_c17.rs` and
//!     `#[cfg(kani)] #[path = "kani_loader_c17.rs"] mod kani_loader_c17;` is appended to
//!     `a2lfile/src/loader.rs` (child module => may call the private `decode_raw_bytes`);
//!   * `load()` itself opens a file, which CBMC cannot model.  The runner therefore cuts the
//!     statements of `load` from `let utf8data = decode_raw_bytes(&filedata);` to the final
//!     `Ok(data)` out of the scratch copy's loader.rs VERBATIM and wraps them as
//!         #[cfg(kani)] fn kani_load_tail(filedata: &[u8]) -> Result<String, A2lError> { ... }
//!     so the BOM handling that is checked is the source text of `load`, not a re-implementation.
//!
//! Everything here is BOUNDED (bounds are stated per harness); results are evidence of level
//! "bounded model check", never proofs of C17.
//!
//! Reference encoders below are written with plain integer arithmetic (no `char::encode_*`) so the
//! oracle shares no code with the decoder under test.

use super::{decode_raw_bytes, kani_load_tail};

/// upper bound for any encoded text used below: UTF-32 BOM + 3 scalars = 16 bytes
const MAXB: usize = 16;

#[derive(Clone, Copy)]
struct Buf {
    b: [u8; MAXB],
    n: usize,
}

impl Buf {
    fn new() -> Self {
        Buf { b: [0; MAXB], n: 0 }
    }
    #[inline(always)]
    fn push(&mut self, x: u8) {
        self.b[self.n] = x;
        self.n += 1;
    }
    fn bytes(&self) -> &[u8] {
        &self.b[..self.n]
    }
}

fn put_utf8(o: &mut Buf, c: u32) {
    if c < 0x80 {
        o.push(c as u8);
    } else if c < 0x800 {
        o.push(0xC0 | (c >> 6) as u8);
        o.push(0x80 | (c & 0x3F) as u8);
    } else if c < 0x1_0000 {
        o.push(0xE0 | (c >> 12) as u8);
        o.push(0x80 | ((c >> 6) & 0x3F) as u8);
        o.push(0x80 | (c & 0x3F) as u8);
    } else {
        o.push(0xF0 | (c >> 18) as u8);
        o.push(0x80 | ((c >> 12) & 0x3F) as u8);
        o.push(0x80 | ((c >> 6) & 0x3F) as u8);
        o.push(0x80 | (c & 0x3F) as u8);
    }
}

fn put_u16(o: &mut Buf, u: u16, be: bool) {
    if be {
        o.push((u >> 8) as u8);
        o.push((u & 0xFF) as u8);
    } else {
        o.push((u & 0xFF) as u8);
        o.push((u >> 8) as u8);
    }
}

fn put_utf16(o: &mut Buf, c: u32, be: bool) {
    if c < 0x1_0000 {
        put_u16(o, c as u16, be);
    } else {
        let v = c - 0x1_0000;
        put_u16(o, 0xD800 | (v >> 10) as u16, be);
        put_u16(o, 0xDC00 | (v & 0x3FF) as u16, be);
    }
}

fn put_utf32(o: &mut Buf, c: u32, be: bool) {
    if be {
        o.push((c >> 24) as u8);
        o.push((c >> 16) as u8);
        o.push((c >> 8) as u8);
        o.push(c as u8);
    } else {
        o.push(c as u8);
        o.push((c >> 8) as u8);
        o.push((c >> 16) as u8);
        o.push((c >> 24) as u8);
    }
}

/// width: 1 = UTF-8, 2 = UTF-16, 4 = UTF-32
fn put(o: &mut Buf, c: u32, width: u8, be: bool) {
    match width {
        1 => put_utf8(o, c),
        2 => put_utf16(o, c, be),
        _ => put_utf32(o, c, be),
    }
}

/// the character set named by the property: 1-, 2-, 3- and 4-byte UTF-8 forms; BMP and non-BMP
const SET: [u32; 4] = [0x61, 0xE9, 0x20AC, 0x1_F600];

fn same_bytes(s: &str, exp: &Buf) -> bool {
    let sb = s.as_bytes();
    if sb.len() != exp.n {
        return false;
    }
    let mut k = 0;
    while k < MAXB {
        if k < exp.n && sb[k] != exp.b[k] {
            return false;
        }
        k += 1;
    }
    true
}

/// (b) round trip for one encoding.
/// Text s = c0 c1 c2 truncated to n in 1..=3 scalars, c0 any ASCII 0x01..=0x7F (symbolic),
/// c1, c2 in SET by symbolic index.  Checks  load_tail(E(s)) == UTF-8(s)  where load_tail is the
/// verbatim tail of `load` (decode_raw_bytes + BOM strip).
fn roundtrip(width: u8, be: bool, bom: bool) {
    let n: usize = kani::any();
    kani::assume(n >= 1 && n <= 3);
    let c0: u8 = kani::any();
    kani::assume(c0 >= 1 && c0 <= 0x7F);
    let i1: usize = kani::any();
    let i2: usize = kani::any();
    kani::assume(i1 < 4 && i2 < 4);
    let cs: [u32; 3] = [c0 as u32, SET[i1], SET[i2]];

    let mut enc = Buf::new();
    let mut exp = Buf::new();
    if bom {
        put(&mut enc, 0xFEFF, width, be);
    }
    let mut k = 0;
    while k < 3 {
        if k < n {
            put(&mut enc, cs[k], width, be);
            put_utf8(&mut exp, cs[k]);
        }
        k += 1;
    }

    match kani_load_tail(enc.bytes()) {
        Ok(s) => {
            assert!(same_bytes(&s, &exp), "C17: decoded text differs from the encoded text");
        }
        Err(_) => {
            assert!(false, "C17: load tail returned an error");
        }
    }

    // every feasible length residue mod 4 is really exercised (anti-vacuity)
    match width {
        1 => {
            kani::cover!(enc.n % 4 == 0);
            kani::cover!(enc.n % 4 == 1);
            kani::cover!(enc.n % 4 == 2);
            kani::cover!(enc.n % 4 == 3);
        }
        2 => {
            kani::cover!(enc.n % 4 == 0);
            kani::cover!(enc.n % 4 == 2);
        }
        _ => {
            kani::cover!(enc.n % 4 == 0);
        }
    }
    kani::cover!(n == 3 && i1 == 3 && i2 == 3);
}

macro_rules! c17_roundtrip {
    ($name:ident, $unwind:literal, $width:expr, $be:expr, $bom:expr, $doc:literal) => {
        #[doc = $doc]
        #[kani::proof]
        #[kani::unwind($unwind)]
        fn $name() {
            roundtrip($width, $be, $bom);
        }
    };
}

// BOUND for all ten: texts of 1..=3 scalar values, first scalar any ASCII 0x01..=0x7F, the others
// from {U+0061, U+00E9, U+20AC, U+1F600}; all length residues mod 4 that the encoding can produce
// are covered (kani::cover).  BOUNDED, not complete.
c17_roundtrip!(c17_rt_utf8, 18, 1, false, false,
    "C17(b) UTF-8 without BOM: load_tail(E(s)) == s. Bound: 1..=3 scalars (1..=9 bytes). BOUNDED.");
c17_roundtrip!(c17_rt_utf8_bom, 18, 1, false, true,
    "C17(b) UTF-8 with BOM: load_tail(E(s)) == s. Bound: 1..=3 scalars (4..=12 bytes). BOUNDED.");
c17_roundtrip!(c17_rt_utf16le, 18, 2, false, false,
    "C17(b) UTF-16LE without BOM. Bound: 1..=3 scalars (2..=10 bytes). BOUNDED.");
c17_roundtrip!(c17_rt_utf16le_bom, 18, 2, false, true,
    "C17(b) UTF-16LE with BOM. Bound: 1..=3 scalars (4..=12 bytes). BOUNDED.");
c17_roundtrip!(c17_rt_utf16be, 18, 2, true, false,
    "C17(b) UTF-16BE without BOM. Bound: 1..=3 scalars (2..=10 bytes). BOUNDED.");
c17_roundtrip!(c17_rt_utf16be_bom, 18, 2, true, true,
    "C17(b) UTF-16BE with BOM. Bound: 1..=3 scalars (4..=12 bytes). BOUNDED.");
c17_roundtrip!(c17_rt_utf32le, 18, 4, false, false,
    "C17(b) UTF-32LE without BOM. Bound: 1..=3 scalars (4..=12 bytes). BOUNDED.");
c17_roundtrip!(c17_rt_utf32le_bom, 18, 4, false, true,
    "C17(b) UTF-32LE with BOM. Bound: 1..=3 scalars (8..=16 bytes). BOUNDED.");
c17_roundtrip!(c17_rt_utf32be, 18, 4, true, false,
    "C17(b) UTF-32BE without BOM. Bound: 1..=3 scalars (4..=12 bytes). BOUNDED.");
c17_roundtrip!(c17_rt_utf32be_bom, 18, 4, true, true,
    "C17(b) UTF-32BE with BOM. Bound: 1..=3 scalars (8..=16 bytes). BOUNDED.");

/// (a) totality for one concrete length L: every byte string of exactly L bytes goes through
/// `decode_raw_bytes` and the BOM-stripping tail of `load` without panic, arithmetic overflow or
/// out-of-bounds access (Kani's built-in checks), and the tail returns `Ok`.
fn totality<const L: usize>() {
    let data: [u8; L] = kani::any();
    let r = kani_load_tail(&data[..]);
    assert!(r.is_ok());
}

macro_rules! c17_total {
    ($name:ident, $len:literal, $unwind:literal) => {
        /// C17(a) totality: ALL byte strings of exactly this length: no panic in decode_raw_bytes +
        /// BOM strip. Complete for this length only => BOUNDED.
        #[kani::proof]
        #[kani::unwind($unwind)]
        fn $name() {
            totality::<$len>();
        }
    };
}

c17_total!(c17_total_len_00, 0, 3);
c17_total!(c17_total_len_01, 1, 4);
c17_total!(c17_total_len_02, 2, 5);
c17_total!(c17_total_len_03, 3, 6);
c17_total!(c17_total_len_04, 4, 7);
c17_total!(c17_total_len_05, 5, 8);
c17_total!(c17_total_len_06, 6, 9);
c17_total!(c17_total_len_07, 7, 10);
c17_total!(c17_total_len_08, 8, 11);
c17_total!(c17_total_len_09, 9, 12);
c17_total!(c17_total_len_10, 10, 13);
c17_total!(c17_total_len_11, 11, 14);
c17_total!(c17_total_len_12, 12, 15);

/// (c) concrete example from the property text: an ASCII byte followed by a lone 0xFF is not valid
/// UTF-8 (and triggers no UTF-16/32 detection) => Latin-1 reading "a\u{ff}", no failure.
/// Bound: this one input. BOUNDED.
#[kani::proof]
#[kani::unwind(6)]
fn c17_latin1_example() {
    let data: [u8; 2] = [b'a', 0xFF];
    let s = decode_raw_bytes(&data);
    let sb = s.as_bytes();
    assert!(sb.len() == 3 && sb[0] == b'a' && sb[1] == 0xC3 && sb[2] == 0xBF);
}

/// (c) for one concrete length L, all byte strings d with
///   * d[0] ASCII non-NUL, d[1] != 0 (so neither UTF-16 nor UTF-32BE detection can trigger),
///   * not (L % 4 == 0 and d[2] == 0 and d[3] == 0)  (no UTF-32LE detection):
///   if `core::str::from_utf8(d)` fails  => result is the Latin-1 reading of d
///   if it succeeds                       => result is d itself.
fn latin1_fallback<const L: usize>() {
    let d: [u8; L] = kani::any();
    kani::assume(d[0] >= 1 && d[0] <= 0x7F);
    if L >= 2 {
        kani::assume(d[1] != 0);
    }
    if L % 4 == 0 && L > 3 {
        kani::assume(!(d[2] == 0 && d[3] == 0));
    }
    let valid = core::str::from_utf8(&d[..]).is_ok();
    let s = decode_raw_bytes(&d[..]);
    let sb = s.as_bytes();
    if valid {
        assert!(sb.len() == L);
        let mut k = 0;
        while k < L {
            assert!(sb[k] == d[k]);
            k += 1;
        }
    } else {
        // Latin-1 -> UTF-8: b < 0x80 => [b]; else [0xC0 | b >> 6, 0x80 | b & 0x3F]
        let mut pos = 0;
        let mut k = 0;
        while k < L {
            let b = d[k];
            if b < 0x80 {
                assert!(pos < sb.len() && sb[pos] == b);
                pos += 1;
            } else {
                assert!(pos + 1 < sb.len());
                assert!(sb[pos] == (0xC0 | (b >> 6)) && sb[pos + 1] == (0x80 | (b & 0x3F)));
                pos += 2;
            }
            k += 1;
        }
        assert!(pos == sb.len());
    }
    kani::cover!(valid);
    kani::cover!(!valid);
}

macro_rules! c17_latin1 {
    ($name:ident, $len:literal, $unwind:literal) => {
        /// C17(c) invalid UTF-8 => Latin-1 (and valid UTF-8 => identity), all byte strings of exactly
        /// this length with an ASCII non-NUL first byte and no wide-encoding signature.
        /// Complete for this length only => BOUNDED.
        #[kani::proof]
        #[kani::unwind($unwind)]
        fn $name() {
            latin1_fallback::<$len>();
        }
    };
}

c17_latin1!(c17_latin1_len_02, 2, 6);
c17_latin1!(c17_latin1_len_03, 3, 8);
c17_latin1!(c17_latin1_len_04, 4, 10);
c17_latin1!(c17_latin1_len_05, 5, 12);
c17_latin1!(c17_latin1_len_06, 6, 14);
c17_latin1!(c17_latin1_len_07, 7, 16);
c17_latin1!(c17_latin1_len_08, 8, 18);
