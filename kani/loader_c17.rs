//! C17 — "The loaded model does not depend on the file's text encoding": BOUNDED Kani stand-ins
//! on the REAL `loader::decode_raw_bytes` and the REAL BOM-stripping tail of `loader::load`.
//!
//! Injection (done by /verif/kani/run_kani.py in a scratch copy, never in /repo):
//!   * this file is copied to `a2lfile/src/kani_loader_c17.rs` and
//!     `#[cfg(kani)] #[path = "kani_loader_c17.rs"] mod kani_loader_c17;` is appended to
//!     `a2lfile/src/loader.rs` (child module => may call the private `decode_raw_bytes`);
//!   * `load()` itself opens a file, which CBMC cannot model.  The runner therefore cuts the
//!     statements of `load` that follow `let filedata = read_data(..)?;` out of the scratch copy's
//!     loader.rs VERBATIM and wraps them as
//!         #[cfg(kani)] fn kani_load_tail(filedata: &[u8]) -> Result<String, A2lError> {
//!             let utf8data = decode_raw_bytes(&filedata);      // <- verbatim line of `load`
//!             kani_bom_strip(utf8data)
//!         }
//!         #[cfg(kani)] fn kani_bom_strip(utf8data: String) -> Result<String, A2lError> {
//!             let data = if utf8data.len() > 2 && ... ;       // <- verbatim rest of `load`
//!             Ok(data)
//!         }
//!     so the BOM handling that is checked is the source text of `load`, not a re-implementation
//!     (a mutant of `load` changes what these harnesses execute).
//!
//! Everything here is BOUNDED (bounds are stated per harness); results are evidence of level
//! "bounded model check", never proofs of C17.
//!
//! Reference encoders below are written with plain integer arithmetic (no `char::encode_*`) so the
//! oracle shares no code with the decoder under test.
//!
//! Measured (Kani 0.68 / CBMC 6.11, see /verif/contracts/notes/U-LD.md): every `String::push` /
//! `from_utf16` / `collect` on symbolic data is expensive, and a symbolic *length* makes CBMC
//! unwind every loop to the bound on every path (the first version of this file, with symbolic
//! `n` and symbolic SET indices, did not finish one encoding in 15 min).  Therefore all lengths
//! are concrete per harness (or enumerated by a concrete in-harness loop) and only the *content*
//! is symbolic.

use super::{decode_raw_bytes, kani_bom_strip, kani_load_tail};

/// upper bound for any encoded text used below: UTF-32 BOM + 3 scalars = 16 bytes
const MAXB: usize = 16;

#[derive(Clone, Copy)]
struct Buf {
    b: [u8; MAXB],
    n: usize,
}

impl Buf {
    fn new() -> Self {
        Buf { b: [0; MAXB], n: 0 }
    }
    #[inline(always)]
    fn push(&mut self, x: u8) {
        self.b[self.n] = x;
        self.n += 1;
    }
    fn bytes(&self) -> &[u8] {
        &self.b[..self.n]
    }
}

/// A scalar value together with its UTF-8 length class (1..=4).  The class is always a CONCRETE
/// value in the harnesses; the encoders branch on the class, never on the (possibly symbolic)
/// scalar, so that every encoded length is concrete for CBMC.  `Sc::check` ties the two together.
#[derive(Clone, Copy)]
struct Sc {
    c: u32,
    class: u8,
}

impl Sc {
    const fn of(c: u32) -> Sc {
        let class = if c < 0x80 {
            1
        } else if c < 0x800 {
            2
        } else if c < 0x1_0000 {
            3
        } else {
            4
        };
        Sc { c, class }
    }
    /// class membership (a harness `assume`s this for symbolic scalars, `assert`s it for constants)
    fn in_class(&self) -> bool {
        match self.class {
            1 => self.c <= 0x7F,
            2 => self.c >= 0x80 && self.c <= 0x7FF,
            3 => self.c >= 0x800 && self.c <= 0xFFFF && !(self.c >= 0xD800 && self.c <= 0xDFFF),
            4 => self.c >= 0x1_0000 && self.c <= 0x10_FFFF,
            _ => false,
        }
    }
}

fn put_utf8(o: &mut Buf, s: Sc) {
    let c = s.c;
    match s.class {
        1 => o.push(c as u8),
        2 => {
            o.push(0xC0 | (c >> 6) as u8);
            o.push(0x80 | (c & 0x3F) as u8);
        }
        3 => {
            o.push(0xE0 | (c >> 12) as u8);
            o.push(0x80 | ((c >> 6) & 0x3F) as u8);
            o.push(0x80 | (c & 0x3F) as u8);
        }
        _ => {
            o.push(0xF0 | (c >> 18) as u8);
            o.push(0x80 | ((c >> 12) & 0x3F) as u8);
            o.push(0x80 | ((c >> 6) & 0x3F) as u8);
            o.push(0x80 | (c & 0x3F) as u8);
        }
    }
}

fn put_u16(o: &mut Buf, u: u16, be: bool) {
    if be {
        o.push((u >> 8) as u8);
        o.push((u & 0xFF) as u8);
    } else {
        o.push((u & 0xFF) as u8);
        o.push((u >> 8) as u8);
    }
}

fn put_utf16(o: &mut Buf, s: Sc, be: bool) {
    let c = s.c;
    if s.class < 4 {
        put_u16(o, c as u16, be);
    } else {
        let v = c.wrapping_sub(0x1_0000);
        put_u16(o, 0xD800 | ((v >> 10) & 0x3FF) as u16, be);
        put_u16(o, 0xDC00 | (v & 0x3FF) as u16, be);
    }
}

fn put_utf32(o: &mut Buf, s: Sc, be: bool) {
    let c = s.c;
    if be {
        o.push((c >> 24) as u8);
        o.push((c >> 16) as u8);
        o.push((c >> 8) as u8);
        o.push(c as u8);
    } else {
        o.push(c as u8);
        o.push((c >> 8) as u8);
        o.push((c >> 16) as u8);
        o.push((c >> 24) as u8);
    }
}

/// width: 1 = UTF-8, 2 = UTF-16, 4 = UTF-32
fn put(o: &mut Buf, s: Sc, width: u8, be: bool) {
    match width {
        1 => put_utf8(o, s),
        2 => put_utf16(o, s, be),
        _ => put_utf32(o, s, be),
    }
}

/// the character set named by the property: 1-, 2-, 3- and 4-byte UTF-8 forms; BMP and non-BMP
const SET: [Sc; 4] = [Sc::of(0x61), Sc::of(0xE9), Sc::of(0x20AC), Sc::of(0x1_F600)];
const BOM: Sc = Sc::of(0xFEFF);
const NONE: Sc = Sc { c: 0, class: 1 };

fn same_bytes(s: &str, exp: &Buf) -> bool {
    let sb = s.as_bytes();
    if sb.len() != exp.n {
        return false;
    }
    // exp.n is concrete in every harness (class-driven encoders)
    let mut k = 0;
    while k < exp.n {
        if sb[k] != exp.b[k] {
            return false;
        }
        k += 1;
    }
    true
}

/// Encode `cs[..n]` with encoding (width, be, bom) and check the decoder.  `n` is concrete at every
/// call site.
///   via_load == true : run the verbatim tail of `load` (decode_raw_bytes + BOM strip) and require the
///                      UTF-8 form of `cs[..n]`;
///   via_load == false: run `decode_raw_bytes` alone and require the UTF-8 form of
///                      (U+FEFF if bom) + `cs[..n]`.  Used where the content is symbolic: operating
///                      on a String of symbolic length (`String::from(&utf8data[3..])`) exhausts
///                      16 GiB in CBMC.  The BOM strip is then covered by the `c17_bomstrip_*`
///                      harnesses (all valid UTF-8 strings of a given length).
fn roundtrip_text(width: u8, be: bool, bom: bool, n: usize, cs: [Sc; 3], via_load: bool) -> usize {
    let mut enc = Buf::new();
    let mut exp = Buf::new();
    if bom {
        put(&mut enc, BOM, width, be);
        if !via_load {
            put_utf8(&mut exp, BOM);
        }
    }
    let mut k = 0;
    while k < 3 {
        if k < n {
            assert!(cs[k].in_class() && cs[k].c != 0, "C17 harness: scalar outside its declared class");
            put(&mut enc, cs[k], width, be);
            put_utf8(&mut exp, cs[k]);
        }
        k += 1;
    }
    if via_load {
        match kani_load_tail(enc.bytes()) {
            Ok(s) => {
                assert!(same_bytes(&s, &exp), "C17: decoded text differs from the encoded text");
            }
            Err(_) => {
                assert!(false, "C17: load tail returned an error");
            }
        }
    } else {
        let s = decode_raw_bytes(enc.bytes());
        assert!(same_bytes(&s, &exp), "C17: decoded text differs from the encoded text");
    }
    enc.n
}

/// (b) all 21 texts  c0 | c0 c1 | c0 c1 c2  with c1, c2 in SET (every index pair enumerated by a
/// concrete loop, so each decode runs with concrete data), c0 = 'a'.  Returns a bit set of the length
/// residues mod 4 that occurred.
fn roundtrip_set(width: u8, be: bool, bom: bool) -> u8 {
    let c0 = SET[0];
    let mut residues: u8 = 0;
    let l = roundtrip_text(width, be, bom, 1, [c0, NONE, NONE], true);
    residues |= 1 << (l % 4);
    let mut i1 = 0;
    while i1 < 4 {
        let l = roundtrip_text(width, be, bom, 2, [c0, SET[i1], NONE], true);
        residues |= 1 << (l % 4);
        let mut i2 = 0;
        while i2 < 4 {
            let l = roundtrip_text(width, be, bom, 3, [c0, SET[i1], SET[i2]], true);
            residues |= 1 << (l % 4);
            i2 += 1;
        }
        i1 += 1;
    }
    residues
}

/// (b, sample) the 4 texts  c0 | c0 U+20AC | c0 U+00E9 U+20AC | c0 U+00E9 U+1F600 : UTF-8 lengths
/// 1, 4, 6, 7 (with BOM 4, 7, 9, 10), UTF-16 lengths 2, 4, 6, 8 (+2), i.e. every feasible length
/// residue mod 4, a BMP and a non-BMP character.
fn roundtrip_sample(width: u8, be: bool, bom: bool) -> u8 {
    let c0 = SET[0];
    let mut residues: u8 = 0;
    let l = roundtrip_text(width, be, bom, 1, [c0, NONE, NONE], true);
    residues |= 1 << (l % 4);
    let l = roundtrip_text(width, be, bom, 2, [c0, SET[2], NONE], true);
    residues |= 1 << (l % 4);
    let l = roundtrip_text(width, be, bom, 3, [c0, SET[1], SET[2]], true);
    residues |= 1 << (l % 4);
    let l = roundtrip_text(width, be, bom, 3, [c0, SET[1], SET[3]], true);
    residues |= 1 << (l % 4);
    residues
}

macro_rules! c17_roundtrip {
    ($qname:ident, $name:ident, $qunwind:literal, $unwind:literal, $width:expr, $be:expr, $bom:expr, $residues:expr, $doc:literal) => {
        #[doc = $doc]
        ///
        /// QUICK SAMPLE: `load_tail(E(s)) == s` (load_tail = verbatim `decode_raw_bytes` + BOM strip
        /// of `load`) for the 4 texts a | a U+20AC | a U+00E9 U+20AC | a U+00E9 U+1F600 (all data
        /// concrete: CBMC acts as an interpreter of the real code); asserts that every length residue
        /// mod 4 the encoding can produce occurred.  BOUNDED (4 texts).
        #[kani::proof]
        #[kani::unwind($qunwind)]
        fn $qname() {
            let residues = roundtrip_sample($width, $be, $bom);
            assert!(residues == $residues, "C17 harness: length residues mod 4 not all covered");
        }

        #[doc = $doc]
        ///
        /// `load_tail(E(s)) == s` for the 21 texts of 1..=3 scalars whose first scalar is 'a' and
        /// whose other scalars range over {U+0061, U+00E9, U+20AC, U+1F600} (all index combinations
        /// enumerated; all data concrete); every feasible length residue mod 4 occurs.
        /// BOUNDED (21 texts).
        #[kani::proof]
        #[kani::unwind($unwind)]
        fn $name() {
            let residues = roundtrip_set($width, $be, $bom);
            assert!(residues == $residues, "C17 harness: length residues mod 4 not all covered");
        }
    };
}

c17_roundtrip!(c17_rtq_utf8, c17_rt_utf8, 9, 11, 1, false, false, 0b1111, "C17(b) UTF-8 without BOM.");
c17_roundtrip!(c17_rtq_utf8_bom, c17_rt_utf8_bom, 12, 14, 1, false, true, 0b1111, "C17(b) UTF-8 with BOM.");
c17_roundtrip!(c17_rtq_utf16le, c17_rt_utf16le, 10, 12, 2, false, false, 0b0101, "C17(b) UTF-16LE without BOM.");
c17_roundtrip!(c17_rtq_utf16le_bom, c17_rt_utf16le_bom, 12, 14, 2, false, true, 0b0101, "C17(b) UTF-16LE with BOM.");
c17_roundtrip!(c17_rtq_utf16be, c17_rt_utf16be, 10, 12, 2, true, false, 0b0101, "C17(b) UTF-16BE without BOM.");
c17_roundtrip!(c17_rtq_utf16be_bom, c17_rt_utf16be_bom, 12, 14, 2, true, true, 0b0101, "C17(b) UTF-16BE with BOM.");
c17_roundtrip!(c17_rtq_utf32le, c17_rt_utf32le, 14, 14, 4, false, false, 0b0001, "C17(b) UTF-32LE without BOM.");
c17_roundtrip!(c17_rtq_utf32le_bom, c17_rt_utf32le_bom, 18, 18, 4, false, true, 0b0001, "C17(b) UTF-32LE with BOM.");
c17_roundtrip!(c17_rtq_utf32be, c17_rt_utf32be, 14, 14, 4, true, false, 0b0001, "C17(b) UTF-32BE without BOM.");
c17_roundtrip!(c17_rtq_utf32be_bom, c17_rt_utf32be_bom, 18, 18, 4, true, true, 0b0001, "C17(b) UTF-32BE with BOM.");

/// a symbolic scalar value whose UTF-8 form has exactly `class` bytes (class 1 excludes U+0000;
/// class 3 excludes the surrogates D800..DFFF); `class` is concrete
fn any_scalar_of_class(class: u8) -> Sc {
    let s = Sc { c: kani::any(), class };
    kani::assume(s.in_class() && s.c != 0);
    s
}

/// (b+) stronger variant for one concrete *shape*: text c0 c1 with c0 ANY ASCII non-NUL and c1 ANY
/// scalar value of the given UTF-8 length class (both fully symbolic, not only the SET members).
fn roundtrip_class2(width: u8, be: bool, bom: bool, class1: u8) {
    let c0 = any_scalar_of_class(1);
    let c1 = any_scalar_of_class(class1);
    roundtrip_text(width, be, bom, 2, [c0, c1, NONE], false);
}

macro_rules! c17_roundtrip_any {
    ($name:ident, $unwind:literal, $width:expr, $be:expr, $bom:expr, $class:expr, $doc:literal) => {
        #[doc = $doc]
        ///
        /// (b+) `decode_raw_bytes(E(c0 c1)) == [U+FEFF if BOM] c0 c1` for c0 ANY ASCII 0x01..=0x7F and c1 ANY Unicode scalar
        /// value of the stated UTF-8 length class (class 1: U+0001..7F, 2: U+0080..7FF,
        /// 3: U+0800..FFFF without surrogates, 4: U+10000..10FFFF), content fully symbolic.
        /// The four class harnesses of an encoding together cover every c1 except U+0000.
        /// BOUNDED (texts of exactly 2 scalars).
        #[kani::proof]
        #[kani::unwind($unwind)]
        fn $name() {
            roundtrip_class2($width, $be, $bom, $class);
        }
    };
}

// unwind = encoded length + 2
c17_roundtrip_any!(c17_rtany_utf8_c1, 4, 1, false, false, 1, "C17(b+) UTF-8 without BOM, second scalar of UTF-8 class 1 (2 bytes).");
c17_roundtrip_any!(c17_rtany_utf8_c2, 5, 1, false, false, 2, "C17(b+) UTF-8 without BOM, second scalar of UTF-8 class 2 (3 bytes).");
c17_roundtrip_any!(c17_rtany_utf8_c3, 6, 1, false, false, 3, "C17(b+) UTF-8 without BOM, second scalar of UTF-8 class 3 (4 bytes).");
c17_roundtrip_any!(c17_rtany_utf8_c4, 7, 1, false, false, 4, "C17(b+) UTF-8 without BOM, second scalar of UTF-8 class 4 (5 bytes).");
c17_roundtrip_any!(c17_rtany_utf8_bom_c1, 7, 1, false, true, 1, "C17(b+) UTF-8 with BOM, second scalar of UTF-8 class 1 (5 bytes).");
c17_roundtrip_any!(c17_rtany_utf8_bom_c2, 8, 1, false, true, 2, "C17(b+) UTF-8 with BOM, second scalar of UTF-8 class 2 (6 bytes).");
c17_roundtrip_any!(c17_rtany_utf8_bom_c3, 9, 1, false, true, 3, "C17(b+) UTF-8 with BOM, second scalar of UTF-8 class 3 (7 bytes).");
c17_roundtrip_any!(c17_rtany_utf8_bom_c4, 10, 1, false, true, 4, "C17(b+) UTF-8 with BOM, second scalar of UTF-8 class 4 (8 bytes).");
c17_roundtrip_any!(c17_rtany_utf16le_c1, 6, 2, false, false, 1, "C17(b+) UTF-16LE without BOM, second scalar of UTF-8 class 1 (4 bytes).");
c17_roundtrip_any!(c17_rtany_utf16le_c2, 6, 2, false, false, 2, "C17(b+) UTF-16LE without BOM, second scalar of UTF-8 class 2 (4 bytes).");
c17_roundtrip_any!(c17_rtany_utf16le_c3, 6, 2, false, false, 3, "C17(b+) UTF-16LE without BOM, second scalar of UTF-8 class 3 (4 bytes).");
c17_roundtrip_any!(c17_rtany_utf16le_c4, 8, 2, false, false, 4, "C17(b+) UTF-16LE without BOM, second scalar of UTF-8 class 4 (6 bytes).");
c17_roundtrip_any!(c17_rtany_utf16le_bom_c1, 8, 2, false, true, 1, "C17(b+) UTF-16LE with BOM, second scalar of UTF-8 class 1 (6 bytes).");
c17_roundtrip_any!(c17_rtany_utf16le_bom_c2, 8, 2, false, true, 2, "C17(b+) UTF-16LE with BOM, second scalar of UTF-8 class 2 (6 bytes).");
c17_roundtrip_any!(c17_rtany_utf16le_bom_c3, 8, 2, false, true, 3, "C17(b+) UTF-16LE with BOM, second scalar of UTF-8 class 3 (6 bytes).");
c17_roundtrip_any!(c17_rtany_utf16le_bom_c4, 10, 2, false, true, 4, "C17(b+) UTF-16LE with BOM, second scalar of UTF-8 class 4 (8 bytes).");
c17_roundtrip_any!(c17_rtany_utf16be_c1, 6, 2, true, false, 1, "C17(b+) UTF-16BE without BOM, second scalar of UTF-8 class 1 (4 bytes).");
c17_roundtrip_any!(c17_rtany_utf16be_c2, 6, 2, true, false, 2, "C17(b+) UTF-16BE without BOM, second scalar of UTF-8 class 2 (4 bytes).");
c17_roundtrip_any!(c17_rtany_utf16be_c3, 6, 2, true, false, 3, "C17(b+) UTF-16BE without BOM, second scalar of UTF-8 class 3 (4 bytes).");
c17_roundtrip_any!(c17_rtany_utf16be_c4, 8, 2, true, false, 4, "C17(b+) UTF-16BE without BOM, second scalar of UTF-8 class 4 (6 bytes).");
c17_roundtrip_any!(c17_rtany_utf16be_bom_c1, 8, 2, true, true, 1, "C17(b+) UTF-16BE with BOM, second scalar of UTF-8 class 1 (6 bytes).");
c17_roundtrip_any!(c17_rtany_utf16be_bom_c2, 8, 2, true, true, 2, "C17(b+) UTF-16BE with BOM, second scalar of UTF-8 class 2 (6 bytes).");
c17_roundtrip_any!(c17_rtany_utf16be_bom_c3, 8, 2, true, true, 3, "C17(b+) UTF-16BE with BOM, second scalar of UTF-8 class 3 (6 bytes).");
c17_roundtrip_any!(c17_rtany_utf16be_bom_c4, 10, 2, true, true, 4, "C17(b+) UTF-16BE with BOM, second scalar of UTF-8 class 4 (8 bytes).");
c17_roundtrip_any!(c17_rtany_utf32le_c1, 10, 4, false, false, 1, "C17(b+) UTF-32LE without BOM, second scalar of UTF-8 class 1 (8 bytes).");
c17_roundtrip_any!(c17_rtany_utf32le_c2, 10, 4, false, false, 2, "C17(b+) UTF-32LE without BOM, second scalar of UTF-8 class 2 (8 bytes).");
c17_roundtrip_any!(c17_rtany_utf32le_c3, 10, 4, false, false, 3, "C17(b+) UTF-32LE without BOM, second scalar of UTF-8 class 3 (8 bytes).");
c17_roundtrip_any!(c17_rtany_utf32le_c4, 10, 4, false, false, 4, "C17(b+) UTF-32LE without BOM, second scalar of UTF-8 class 4 (8 bytes).");
c17_roundtrip_any!(c17_rtany_utf32le_bom_c1, 14, 4, false, true, 1, "C17(b+) UTF-32LE with BOM, second scalar of UTF-8 class 1 (12 bytes).");
c17_roundtrip_any!(c17_rtany_utf32le_bom_c2, 14, 4, false, true, 2, "C17(b+) UTF-32LE with BOM, second scalar of UTF-8 class 2 (12 bytes).");
c17_roundtrip_any!(c17_rtany_utf32le_bom_c3, 14, 4, false, true, 3, "C17(b+) UTF-32LE with BOM, second scalar of UTF-8 class 3 (12 bytes).");
c17_roundtrip_any!(c17_rtany_utf32le_bom_c4, 14, 4, false, true, 4, "C17(b+) UTF-32LE with BOM, second scalar of UTF-8 class 4 (12 bytes).");
c17_roundtrip_any!(c17_rtany_utf32be_c1, 10, 4, true, false, 1, "C17(b+) UTF-32BE without BOM, second scalar of UTF-8 class 1 (8 bytes).");
c17_roundtrip_any!(c17_rtany_utf32be_c2, 10, 4, true, false, 2, "C17(b+) UTF-32BE without BOM, second scalar of UTF-8 class 2 (8 bytes).");
c17_roundtrip_any!(c17_rtany_utf32be_c3, 10, 4, true, false, 3, "C17(b+) UTF-32BE without BOM, second scalar of UTF-8 class 3 (8 bytes).");
c17_roundtrip_any!(c17_rtany_utf32be_c4, 10, 4, true, false, 4, "C17(b+) UTF-32BE without BOM, second scalar of UTF-8 class 4 (8 bytes).");
c17_roundtrip_any!(c17_rtany_utf32be_bom_c1, 14, 4, true, true, 1, "C17(b+) UTF-32BE with BOM, second scalar of UTF-8 class 1 (12 bytes).");
c17_roundtrip_any!(c17_rtany_utf32be_bom_c2, 14, 4, true, true, 2, "C17(b+) UTF-32BE with BOM, second scalar of UTF-8 class 2 (12 bytes).");
c17_roundtrip_any!(c17_rtany_utf32be_bom_c3, 14, 4, true, true, 3, "C17(b+) UTF-32BE with BOM, second scalar of UTF-8 class 3 (12 bytes).");
c17_roundtrip_any!(c17_rtany_utf32be_bom_c4, 14, 4, true, true, 4, "C17(b+) UTF-32BE with BOM, second scalar of UTF-8 class 4 (12 bytes).");

/// (a) totality of `decode_raw_bytes` for one concrete length L: every byte string of exactly L
/// bytes is decoded without panic, arithmetic overflow or out-of-bounds access (Kani's built-in
/// checks); the result has between L/4 and 2*L bytes.
fn totality<const L: usize>() {
    let data: [u8; L] = kani::any();
    let s = decode_raw_bytes(&data[..]);
    assert!(s.len() <= 2 * L);
    assert!(s.len() >= L / 4);
}

macro_rules! c17_total {
    ($name:ident, $len:literal, $unwind:literal) => {
        /// C17(a) totality of `decode_raw_bytes`: ALL byte strings of exactly this length: no panic.
        /// Complete for this length only => BOUNDED.
        #[kani::proof]
        #[kani::unwind($unwind)]
        fn $name() {
            totality::<$len>();
        }
    };
}

c17_total!(c17_total_len_00, 0, 3);
c17_total!(c17_total_len_01, 1, 4);
c17_total!(c17_total_len_02, 2, 5);
c17_total!(c17_total_len_03, 3, 6);
c17_total!(c17_total_len_04, 4, 7);
c17_total!(c17_total_len_05, 5, 8);
c17_total!(c17_total_len_06, 6, 9);
c17_total!(c17_total_len_07, 7, 10);
c17_total!(c17_total_len_08, 8, 11);
c17_total!(c17_total_len_09, 9, 12);
c17_total!(c17_total_len_10, 10, 13);
c17_total!(c17_total_len_11, 11, 14);
c17_total!(c17_total_len_12, 12, 15);

/// (a') totality and exact effect of the BOM-stripping tail of `load` (verbatim source text) on
/// every valid UTF-8 string of exactly L bytes: no panic (in particular `&utf8data[3..]` is always
/// on a char boundary), result is Ok, and equals the input without a leading U+FEFF (EF BB BF).
/// Together with (a) this gives: no byte string of length <= N makes `load`'s pure part panic.
fn bomstrip<const L: usize>() {
    let d: [u8; L] = kani::any();
    if let Ok(st) = core::str::from_utf8(&d[..]) {
        let has_bom = L >= 3 && d[0] == 0xEF && d[1] == 0xBB && d[2] == 0xBF;
        match kani_bom_strip(String::from(st)) {
            Ok(out) => {
                let ob = out.as_bytes();
                let skip = if has_bom { 3 } else { 0 };
                assert!(ob.len() == L - skip);
                let mut k = 0;
                while k < L {
                    if k + skip < L {
                        assert!(ob[k] == d[k + skip]);
                    }
                    k += 1;
                }
            }
            Err(_) => assert!(false, "C17: BOM strip returned an error"),
        }
        kani::cover!(has_bom);
        kani::cover!(!has_bom);
    }
}

macro_rules! c17_bomstrip {
    ($name:ident, $len:literal, $unwind:literal) => {
        /// C17(a') BOM strip of `load` on ALL valid UTF-8 strings of exactly this many bytes: no
        /// panic, strips exactly one leading U+FEFF. Complete for this length only => BOUNDED.
        #[kani::proof]
        #[kani::unwind($unwind)]
        fn $name() {
            bomstrip::<$len>();
        }
    };
}

c17_bomstrip!(c17_bomstrip_len_03, 3, 6);
c17_bomstrip!(c17_bomstrip_len_04, 4, 7);
c17_bomstrip!(c17_bomstrip_len_06, 6, 9);

/// C17(a') BOM strip on all valid UTF-8 strings of 0, 1 and 2 bytes (too short for a BOM): identity,
/// no panic. BOUNDED.
#[kani::proof]
#[kani::unwind(5)]
fn c17_bomstrip_len_0_2() {
    let d0: [u8; 0] = [];
    if let Ok(st) = core::str::from_utf8(&d0[..]) {
        assert!(kani_bom_strip(String::from(st)).is_ok_and(|s| s.is_empty()));
    }
    let d1: [u8; 1] = kani::any();
    if let Ok(st) = core::str::from_utf8(&d1[..]) {
        assert!(kani_bom_strip(String::from(st)).is_ok_and(|s| s.len() == 1 && s.as_bytes()[0] == d1[0]));
    }
    let d2: [u8; 2] = kani::any();
    if let Ok(st) = core::str::from_utf8(&d2[..]) {
        assert!(kani_bom_strip(String::from(st))
            .is_ok_and(|s| s.len() == 2 && s.as_bytes()[0] == d2[0] && s.as_bytes()[1] == d2[1]));
    }
}

/// (c) concrete example from the property text: an ASCII byte followed by a lone 0xFF is not valid
/// UTF-8 (and triggers no UTF-16/32 detection) => Latin-1 reading "a\u{ff}", no failure.
/// Bound: this one input. BOUNDED.
#[kani::proof]
#[kani::unwind(6)]
fn c17_latin1_example() {
    let data: [u8; 2] = [b'a', 0xFF];
    match kani_load_tail(&data[..]) {
        Ok(s) => {
            let sb = s.as_bytes();
            assert!(sb.len() == 3 && sb[0] == b'a' && sb[1] == 0xC3 && sb[2] == 0xBF);
        }
        Err(_) => assert!(false, "C17: load tail returned an error"),
    }
}

/// (c) for one concrete length L, all byte strings d with
///   * d[0] ASCII non-NUL, d[1] != 0 (so neither UTF-16 nor UTF-32BE detection can trigger),
///   * not (L % 4 == 0 and d[2] == 0 and d[3] == 0)  (no UTF-32LE detection):
///   if `core::str::from_utf8(d)` fails  => result is the Latin-1 reading of d
///   if it succeeds                       => result is d itself.
fn latin1_fallback<const L: usize>() {
    let d: [u8; L] = kani::any();
    kani::assume(d[0] >= 1 && d[0] <= 0x7F);
    if L >= 2 {
        kani::assume(d[1] != 0);
    }
    if L % 4 == 0 && L > 3 {
        kani::assume(!(d[2] == 0 && d[3] == 0));
    }
    let valid = core::str::from_utf8(&d[..]).is_ok();
    let s = decode_raw_bytes(&d[..]);
    let sb = s.as_bytes();
    if valid {
        assert!(sb.len() == L, "C17: valid UTF-8 must be returned unchanged");
        let mut k = 0;
        while k < L {
            assert!(sb[k] == d[k], "C17: valid UTF-8 must be returned unchanged");
            k += 1;
        }
    } else {
        // Latin-1 -> UTF-8: b < 0x80 => [b]; else [0xC0 | b >> 6, 0x80 | b & 0x3F]
        let mut pos = 0;
        let mut k = 0;
        while k < L {
            let b = d[k];
            if b < 0x80 {
                assert!(pos < sb.len() && sb[pos] == b, "C17: invalid UTF-8 must be read as Latin-1");
                pos += 1;
            } else {
                assert!(pos + 1 < sb.len(), "C17: invalid UTF-8 must be read as Latin-1");
                assert!(
                    sb[pos] == (0xC0 | (b >> 6)) && sb[pos + 1] == (0x80 | (b & 0x3F)),
                    "C17: invalid UTF-8 must be read as Latin-1"
                );
                pos += 2;
            }
            k += 1;
        }
        assert!(pos == sb.len(), "C17: invalid UTF-8 must be read as Latin-1");
    }
    kani::cover!(valid);
    kani::cover!(!valid);
}

macro_rules! c17_latin1 {
    ($name:ident, $len:literal, $unwind:literal) => {
        /// C17(c) invalid UTF-8 => Latin-1 (and valid UTF-8 => identity), all byte strings of exactly
        /// this length with an ASCII non-NUL first byte and no wide-encoding signature.
        /// Complete for this length only => BOUNDED.
        #[kani::proof]
        #[kani::unwind($unwind)]
        fn $name() {
            latin1_fallback::<$len>();
        }
    };
}

c17_latin1!(c17_latin1_len_02, 2, 6);
c17_latin1!(c17_latin1_len_03, 3, 8);
c17_latin1!(c17_latin1_len_04, 4, 10);
c17_latin1!(c17_latin1_len_05, 5, 12);
c17_latin1!(c17_latin1_len_06, 6, 14);
c17_latin1!(c17_latin1_len_07, 7, 16);
c17_latin1!(c17_latin1_len_08, 8, 18);
