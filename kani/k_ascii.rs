//! K-ASCII — `u8::is_ascii_{whitespace,digit,alphabetic,alphanumeric,hexdigit}` equal explicit
//! byte-range tables.
//!
//! Injected by /verif/kani/run_kani.py into a scratch copy of the crate as
//! `#[cfg(kani)] #[path = "kani_k_ascii.rs"] mod kani_k_ascii;` at the end of `a2lfile/src/lib.rs`.
//! Never compiled in /repo itself.
//!
//! The five `tbl_*` functions are the TRUSTED-SPEC TEXT quoted by the Verus units
//! (tokenizer.rs, a2ml.rs, parser.rs call sites).  Keep the `matches!` bodies byte-identical with
//! the copy in /verif/contracts/notes/U-LD.md.
//!
//! All harnesses: loop-free, the single input `b: u8` is fully symbolic => COMPLETE over all 256
//! values (no bound).

#[inline(always)]
pub fn tbl_is_ascii_whitespace(b: u8) -> bool {
    matches!(b, 0x09 | 0x0A | 0x0C | 0x0D | 0x20)
}

#[inline(always)]
pub fn tbl_is_ascii_digit(b: u8) -> bool {
    matches!(b, 0x30..=0x39)
}

#[inline(always)]
pub fn tbl_is_ascii_alphabetic(b: u8) -> bool {
    matches!(b, 0x41..=0x5A | 0x61..=0x7A)
}

#[inline(always)]
pub fn tbl_is_ascii_alphanumeric(b: u8) -> bool {
    matches!(b, 0x30..=0x39 | 0x41..=0x5A | 0x61..=0x7A)
}

#[inline(always)]
pub fn tbl_is_ascii_hexdigit(b: u8) -> bool {
    matches!(b, 0x30..=0x39 | 0x41..=0x46 | 0x61..=0x66)
}

/// K-ASCII/whitespace: for every `b: u8`, `b.is_ascii_whitespace()` <=> b in {09,0A,0C,0D,20}
/// (note: 0x0B VT is NOT whitespace). Bound: none. COMPLETE (all 256 values, loop-free).
#[kani::proof]
fn k_ascii_whitespace() {
    let b: u8 = kani::any();
    assert!(b.is_ascii_whitespace() == tbl_is_ascii_whitespace(b));
    // anti-vacuity / table sanity: the VT exclusion is really observed
    kani::cover!(b == 0x0B && !b.is_ascii_whitespace());
}

/// K-ASCII/digit: for every `b: u8`, `b.is_ascii_digit()` <=> 0x30..=0x39.
/// Bound: none. COMPLETE.
#[kani::proof]
fn k_ascii_digit() {
    let b: u8 = kani::any();
    assert!(b.is_ascii_digit() == tbl_is_ascii_digit(b));
}

/// K-ASCII/alphabetic: for every `b: u8`, `b.is_ascii_alphabetic()` <=> A-Z | a-z.
/// Bound: none. COMPLETE.
#[kani::proof]
fn k_ascii_alphabetic() {
    let b: u8 = kani::any();
    assert!(b.is_ascii_alphabetic() == tbl_is_ascii_alphabetic(b));
}

/// K-ASCII/alphanumeric: for every `b: u8`, `b.is_ascii_alphanumeric()` <=> 0-9 | A-Z | a-z
/// (in particular `_` 0x5F is NOT alphanumeric). Bound: none. COMPLETE.
#[kani::proof]
fn k_ascii_alphanumeric() {
    let b: u8 = kani::any();
    assert!(b.is_ascii_alphanumeric() == tbl_is_ascii_alphanumeric(b));
    assert!(tbl_is_ascii_alphanumeric(b) == (tbl_is_ascii_digit(b) || tbl_is_ascii_alphabetic(b)));
}

/// K-ASCII/hexdigit: for every `b: u8`, `b.is_ascii_hexdigit()` <=> 0-9 | A-F | a-f.
/// Bound: none. COMPLETE.
#[kani::proof]
fn k_ascii_hexdigit() {
    let b: u8 = kani::any();
    assert!(b.is_ascii_hexdigit() == tbl_is_ascii_hexdigit(b));
}
