#!/usr/bin/env python3
"""Run the Kani harness groups of /verif/kani on a scratch copy of the crate.

usage: python3 /verif/kani/run_kani.py <group> [--tier quick|thorough] [--repo /repo] [--base /repo]
                                       [--only SUBSTR ...] [--jobs N] [--timeout SEC] [--keep]

group in {c17, k-ascii, k-as, k-dt, k-bytes}

What it does
  1. copies the CURRENT working tree of --repo (Cargo.toml, Cargo.lock, a2lfile, a2lmacros; never
     `target`) into a fresh tempfile.mkdtemp() directory; /repo itself is never touched;
  2. injects the group's harness file(s) as `#[cfg(kani)] #[path = ...] mod ...;`
        k-ascii, k-as : appended to a2lfile/src/lib.rs
        k-dt          : appended to a2lfile/src/checker.rs   (get_datatype_limits is private)
        c17           : appended to a2lfile/src/loader.rs    (decode_raw_bytes is private), plus the
                        pure tail of `load` cut out VERBATIM into `kani_load_tail`/`kani_bom_strip`
  3. compiles once (`cargo kani --only-codegen`), then runs every harness of the tier in its own
     `cargo kani --harness <fully::qualified::name> --exact` process (own timeout, 16 GiB address
     space limit), `--jobs` of them in parallel;
  4. parses `VERIFICATION:- SUCCESSFUL|FAILED`, the check count and the cover summary;
     on FAILED re-runs that harness with `-Z concrete-playback --concrete-playback=print` to obtain
     concrete input bytes where Kani can produce them;
  5. prints ONE JSON document on stdout, removes the scratch dir.

exit code: 0 all harnesses success; 1 at least one FAILED (real counterexample);
           2 otherwise if any timeout / tool error (compile error, unwinding bound too small,
             unsatisfied cover = vacuous harness, out of memory).

`complete` in the output: True only for loop-free harnesses whose inputs are fully symbolic over the
whole domain (K-ASCII, K-AS, K-DT).  All c17 harnesses are BOUNDED model checks, never proofs.
"""
import argparse
import concurrent.futures
import json
import os
import re
import resource
import shutil
import signal
import subprocess
import sys
import tempfile
import time

HERE = os.path.dirname(os.path.abspath(__file__))
MEM_LIMIT = 16 * 1024 ** 3


def H(name, bound, complete=False, tiers=("quick", "thorough"), timeout=None):
    return {"name": name, "bound": bound, "complete": complete, "tiers": tiers, "timeout": timeout}


Q = ("quick", "thorough")
T = ("thorough",)

ENCODINGS = ["utf8", "utf8_bom", "utf16le", "utf16le_bom", "utf16be", "utf16be_bom",
             "utf32le", "utf32le_bom", "utf32be", "utf32be_bom"]

RTQ_BOUND = ("4 concrete texts a | a U+20AC | a U+00E9 U+20AC | a U+00E9 U+1F600 through the verbatim tail of "
             "load(); every feasible length residue mod 4")
RT_BOUND = ("21 concrete texts of 1..=3 scalars: first 'a', others all index combinations over "
            "{U+0061,U+00E9,U+20AC,U+1F600}, through the verbatim tail of load(); every feasible length residue mod 4")
RTANY_BOUND = ("decode_raw_bytes on texts of exactly 2 scalars: first ANY ASCII 0x01..0x7F, second ANY scalar "
               "value of UTF-8 length class %d (both symbolic)")

# which totality / latin-1 lengths belong to which tier is filled in from measurements
# (see /verif/contracts/notes/U-LD.md)
C17_TOTAL_QUICK = [0, 1, 2, 3, 5]
C17_TOTAL_THOROUGH = [0, 1, 2, 3, 4, 5, 6, 7, 8, 9, 11]
C17_LATIN1_QUICK = [2]
C17_LATIN1_THOROUGH = [2, 3, 4, 5, 6, 7]
# (encoding, class) pairs of the symbolic-content round trips that finish within 16 GiB / 30 min;
# the others exist in loader_c17.rs and can be tried with `--tier extended`
C17_RTANY_FINISHES = {(e, k) for e in ENCODINGS for k in (1, 2, 3, 4)}


def c17_harnesses():
    hs = []
    mod = "loader::kani_loader_c17::"
    for e in ENCODINGS:
        hs.append(H(mod + "c17_rtq_" + e, RTQ_BOUND, tiers=Q))
    for e in ENCODINGS:
        hs.append(H(mod + "c17_rt_" + e, RT_BOUND, tiers=T))
    for e in ENCODINGS:
        for k in (1, 2, 3, 4):
            if (e, k) in C17_RTANY_FINISHES:
                hs.append(H(mod + "c17_rtany_%s_c%d" % (e, k), RTANY_BOUND % k, tiers=T))
            else:
                hs.append(H(mod + "c17_rtany_%s_c%d" % (e, k), RTANY_BOUND % k, tiers=("extended",)))
    for n in sorted(set(C17_TOTAL_QUICK) | set(C17_TOTAL_THOROUGH)):
        hs.append(H(mod + "c17_total_len_%02d" % n,
                    "all byte strings of exactly %d bytes (decode_raw_bytes: no panic)" % n,
                    tiers=Q if n in C17_TOTAL_QUICK else T))
    hs.append(H(mod + "c17_bomstrip_len_0_2", "all valid UTF-8 strings of 0..=2 bytes (BOM strip of load)", tiers=Q))
    hs.append(H(mod + "c17_bomstrip_len_03", "all valid UTF-8 strings of exactly 3 bytes (BOM strip of load)", tiers=Q))
    hs.append(H(mod + "c17_bomstrip_len_04", "all valid UTF-8 strings of exactly 4 bytes (BOM strip of load)", tiers=T))
    hs.append(H(mod + "c17_bomstrip_len_06", "all valid UTF-8 strings of exactly 6 bytes (BOM strip of load)", tiers=T))
    hs.append(H(mod + "c17_latin1_example", "the single input 61 FF", tiers=Q))
    for n in sorted(set(C17_LATIN1_QUICK) | set(C17_LATIN1_THOROUGH)):
        hs.append(H(mod + "c17_latin1_len_%02d" % n,
                    "all byte strings of exactly %d bytes, first byte ASCII non-NUL, no UTF-16/32 signature" % n,
                    tiers=Q if n in C17_LATIN1_QUICK else T))
    return hs


GROUPS = {
    "k-ascii": {
        "harnesses": [H("kani_k_ascii::k_ascii_" + n, "none (all 256 byte values)", complete=True)
                      for n in ("whitespace", "digit", "alphabetic", "alphanumeric", "hexdigit")],
    },
    "k-bytes": {
        "harnesses": [H("kani_k_bytes::k_bytes_" + n, "none (full input domain)", complete=True)
                      for n in ("u32", "u16", "from_u32", "latin1")],
    },
    "k-as": {
        "harnesses": [H("kani_k_as::k_as_" + t, "none (all u64 values)", complete=True)
                      for t in ("u8", "u16", "u32", "u64", "i8", "i16", "i32", "i64")],
    },
    "k-dt": {
        "harnesses": [H("checker::kani_k_dt::k_dt_limits_exact", "none (all 11 DataType variants)", complete=True),
                      H("checker::kani_k_dt::k_dt_all_variants_listed", "none (all index pairs)", complete=True),
                      H("checker::kani_k_dt::k_lim_inside_is_accepted", "none (all finite f64 quadruples)", complete=True, timeout=600),
                      H("checker::kani_k_dt::k_lim_unevaluated_never_errors", "none (all finite f64 pairs)", complete=True, timeout=600),
                      H("checker::kani_k_dt::k_lim_clearly_below_is_rejected", "none (all finite f64 quadruples with c0 in [1, 1e300], e0 in [0, c0/2])", complete=True, timeout=600)],
    },
    "c17": {"harnesses": c17_harnesses()},
}


class ToolError(Exception):
    pass


def append_mod(path, src_name, mod_name):
    with open(path, "a") as f:
        f.write('\n#[cfg(kani)]\n#[path = "%s"]\nmod %s;\n' % (src_name, mod_name))


def inject(group, scratch_repo):
    src = os.path.join(scratch_repo, "a2lfile", "src")
    if group == "k-ascii":
        shutil.copy(os.path.join(HERE, "k_ascii.rs"), os.path.join(src, "kani_k_ascii.rs"))
        append_mod(os.path.join(src, "lib.rs"), "kani_k_ascii.rs", "kani_k_ascii")
    elif group == "k-bytes":
        shutil.copy(os.path.join(HERE, "k_bytes.rs"), os.path.join(src, "kani_k_bytes.rs"))
        append_mod(os.path.join(src, "lib.rs"), "kani_k_bytes.rs", "kani_k_bytes")
    elif group == "k-as":
        shutil.copy(os.path.join(HERE, "k_as.rs"), os.path.join(src, "kani_k_as.rs"))
        append_mod(os.path.join(src, "lib.rs"), "kani_k_as.rs", "kani_k_as")
    elif group == "k-dt":
        shutil.copy(os.path.join(HERE, "k_dt.rs"), os.path.join(src, "kani_k_dt.rs"))
        append_mod(os.path.join(src, "checker.rs"), "kani_k_dt.rs", "kani_k_dt")
    elif group == "c17":
        shutil.copy(os.path.join(HERE, "loader_c17.rs"), os.path.join(src, "kani_loader_c17.rs"))
        loader = os.path.join(src, "loader.rs")
        text = open(loader).read()
        # the pure tail of `load`: everything after the file has been read, verbatim
        m_fn = re.search(r"pub fn load\(path: &Path\) -> Result<String, A2lError> \{\n", text)
        if not m_fn:
            raise ToolError("loader.rs: signature of `load` not found (harness extraction needs updating)")
        m_read = re.compile(r"^    let filedata = read_data\(&mut file, path\)\?;\n", re.M).search(text, m_fn.end())
        m_end = re.compile(r"^}\n", re.M).search(text, m_fn.end())
        if not m_read or not m_end or m_read.start() > m_end.start():
            raise ToolError("loader.rs: `let filedata = read_data(&mut file, path)?;` not found in `load`")
        tail = text[m_read.end():m_end.start()]
        m_dec = re.match(r"(\s*let utf8data = decode_raw_bytes\(&filedata\);\n)", tail)
        if not m_dec:
            raise ToolError("loader.rs: `load` does not continue with `let utf8data = decode_raw_bytes(&filedata);`")
        rest = tail[m_dec.end():]
        # (if `rest` referred to `file`/`path`/`filedata` again, the injected function would not
        #  compile and the run is reported as a tool error)
        with open(loader, "a") as f:
            f.write("\n// ---- injected by /verif/kani/run_kani.py: verbatim pure tail of `load` ----\n")
            f.write("#[cfg(kani)]\nfn kani_load_tail(filedata: &[u8]) -> Result<String, A2lError> {\n")
            f.write(m_dec.group(1))
            f.write("    kani_bom_strip(utf8data)\n}\n\n")
            f.write("#[cfg(kani)]\nfn kani_bom_strip(utf8data: String) -> Result<String, A2lError> {\n")
            f.write(rest)
            f.write("}\n")
        append_mod(loader, "kani_loader_c17.rs", "kani_loader_c17")
    else:
        raise ToolError("unknown group " + group)


def limit_mem():
    os.setsid()
    resource.setrlimit(resource.RLIMIT_AS, (MEM_LIMIT, MEM_LIMIT))


def run_cmd(cmd, cwd, timeout, limit=True):
    env = dict(os.environ)
    env["CARGO_NET_OFFLINE"] = "true"
    t0 = time.time()
    p = subprocess.Popen(cmd, cwd=cwd, env=env, stdout=subprocess.PIPE, stderr=subprocess.STDOUT,
                         text=True, errors="replace", preexec_fn=limit_mem if limit else os.setsid)
    try:
        out, _ = p.communicate(timeout=timeout)
        timed_out = False
    except subprocess.TimeoutExpired:
        timed_out = True
        try:
            os.killpg(p.pid, signal.SIGKILL)
        except ProcessLookupError:
            pass
        out, _ = p.communicate()
    return p.returncode, out, time.time() - t0, timed_out


def failed_checks(out):
    """blocks of the form  Check N: <id>\n\t - Status: FAILURE\n\t - Description: "..."\n\t - Location: ..."""
    res = []
    lines = out.splitlines()
    for i, line in enumerate(lines):
        m = re.match(r"Check \d+: (\S+)", line)
        if not m or i + 1 >= len(lines) or "Status: FAILURE" not in lines[i + 1]:
            continue
        desc, loc = "", ""
        for l in lines[i + 2:i + 8]:
            l = l.strip()
            if l.startswith("- Description:"):
                desc = l[len("- Description:"):].strip().strip('"')
            elif l.startswith("- Location:"):
                loc = l[len("- Location:"):].strip()
                break
            elif l.startswith("Check "):
                break
        res.append({"check": m.group(1), "description": desc, "location": loc})
    return res


def parse_output(out):
    res = {"verdict": None, "checks": None, "failed_checks": [], "cover": None}
    m = re.search(r"VERIFICATION:- (SUCCESSFUL|FAILED)", out)
    if m:
        res["verdict"] = m.group(1)
    m = re.search(r"\*\* (\d+) of (\d+) failed", out)
    if m:
        res["checks"] = int(m.group(2))
    m = re.search(r"\*\* (\d+) of (\d+) cover properties satisfied", out)
    if m:
        res["cover"] = (int(m.group(1)), int(m.group(2)))
    res["failed_checks"] = failed_checks(out)
    m = re.search(r"Verification Time: ([0-9.]+)s", out)
    res["verification_time"] = float(m.group(1)) if m else None
    return res


def extract_playback(out):
    """concrete-playback=print emits a unit test with `let concrete_vals: Vec<Vec<u8>> = vec![ ... ];`"""
    m = re.search(r"let concrete_vals: Vec<Vec<u8>> = vec!\[(.*?)\n\s*\];", out, re.S)
    if not m:
        return None
    vals = []
    for line in m.group(1).splitlines():
        line = line.strip()
        mm = re.match(r"vec!\[([0-9, ]*)\],?", line)
        if mm:
            vals.append([int(x) for x in mm.group(1).replace(" ", "").split(",") if x])
    return vals


def run_harness(h, crate_dir, default_timeout):
    timeout = h["timeout"] or default_timeout
    cmd = ["cargo", "kani", "--harness", h["name"], "--exact"]
    rc, out, secs, timed_out = run_cmd(cmd, crate_dir, timeout)
    r = {"name": h["name"], "bound": h["bound"], "complete": h["complete"], "seconds": round(secs, 1),
         "checks": None}
    if timed_out:
        r["status"] = "timeout"
        r["detail"] = "no result within %d s" % timeout
        return r
    p = parse_output(out)
    r["checks"] = p["checks"]
    if p["verification_time"] is not None:
        r["verification_seconds"] = round(p["verification_time"], 2)
    if p["verdict"] == "SUCCESSFUL":
        if p["cover"] and p["cover"][0] != p["cover"][1]:
            r["status"] = "error"
            r["detail"] = "only %d of %d cover properties satisfied (harness partly vacuous)" % p["cover"]
        else:
            r["status"] = "success"
            if p["cover"]:
                r["cover"] = "%d/%d" % p["cover"]
        return r
    if p["verdict"] == "FAILED":
        fails = p["failed_checks"]
        real = [f for f in fails if "unwinding assertion" not in f["description"]
                and "unwind" not in f["check"]]
        r["failed_checks"] = fails[:20]
        if fails and not real:
            r["status"] = "error"
            r["detail"] = "only unwinding assertions failed: the #[kani::unwind] bound of the harness is too small"
            return r
        if not fails:
            # FAILED without a failing check: CBMC itself gave up (typically "Out of memory" under the
            # 16 GiB limit, reported as `CBMC failed with status 6` or as checks with Status: ERROR)
            r["status"] = "error"
            if "Out of memory" in out or "std::bad_alloc" in out or "Status: ERROR" in out:
                r["detail"] = "CBMC ran out of memory (16 GiB address-space limit)"
            else:
                m = re.search(r"CBMC failed[^\n]*", out)
                r["detail"] = "no failing check reported; " + (m.group(0) if m else out[-600:])
            return r
        r["status"] = "failed"
        # try to get concrete bytes
        cmd2 = ["cargo", "kani", "-Z", "concrete-playback", "--concrete-playback=print",
                "--harness", h["name"], "--exact"]
        rc2, out2, secs2, to2 = run_cmd(cmd2, crate_dir, timeout)
        if not to2:
            vals = extract_playback(out2)
            if vals is not None:
                r["concrete_vals"] = vals
                r["concrete_vals_note"] = ("values of the kani::any() calls in program order, "
                                           "little-endian bytes (Kani concrete playback)")
        return r
    r["status"] = "error"
    tail = out[-1500:]
    if "std::bad_alloc" in out or "out of memory" in out.lower() or rc in (-9, 137, -6, 134):
        r["detail"] = "out of memory (16 GiB limit) or killed; rc=%s" % rc
    else:
        r["detail"] = "no VERIFICATION line; rc=%s; output tail: %s" % (rc, tail)
    return r


def main():
    ap = argparse.ArgumentParser()
    ap.add_argument("group", choices=sorted(GROUPS))
    ap.add_argument("--tier", choices=["quick", "thorough", "extended"], default="quick",
                    help="extended = harnesses known not to finish within 16 GiB / 30 min (not part of any check)")
    ap.add_argument("--repo", default=os.environ.get("VF_REPO", "/repo"))
    ap.add_argument("--base", default="/repo",
                    help="tree that supplies whatever --repo lacks (Cargo.toml, Cargo.lock, a2lmacros, a2lfile/Cargo.toml)")
    ap.add_argument("--only", action="append", default=[], help="run only harnesses whose name contains SUBSTR")
    ap.add_argument("--jobs", type=int, default=None)
    ap.add_argument("--timeout", type=int, default=None, help="per-harness timeout in seconds")
    ap.add_argument("--keep", action="store_true", help="keep the scratch directory (debugging)")
    args = ap.parse_args()

    harnesses = [h for h in GROUPS[args.group]["harnesses"] if args.tier in h["tiers"]]
    if args.only:
        harnesses = [h for h in harnesses if any(s in h["name"] for s in args.only)]
    default_timeout = args.timeout or (300 if args.tier == "quick" else 1800)
    jobs = args.jobs or (4 if args.tier == "quick" else 3)

    cmd_template = ("cd <scratch>/repo/a2lfile && CARGO_NET_OFFLINE=true cargo kani "
                    "--harness <name> --exact   (per harness, timeout %d s, RLIMIT_AS 16 GiB, %d parallel)"
                    % (default_timeout, jobs))
    doc = {"group": args.group, "tier": args.tier, "repo": os.path.abspath(args.repo),
           "harnesses": [], "cmd": cmd_template}

    scratch = tempfile.mkdtemp(prefix="vf-kani-%s-" % args.group)
    exit_code = 0
    try:
        srepo = os.path.join(scratch, "repo")
        os.makedirs(srepo)
        try:
            # --repo may be a partial tree (vf.mutants copies only a2lfile/src): everything that is
            # missing there is taken from --base
            def pick(rel):
                p = os.path.join(args.repo, rel)
                return p if os.path.exists(p) else os.path.join(args.base, rel)
            for f in ("Cargo.toml", "Cargo.lock"):
                shutil.copy(pick(f), os.path.join(srepo, f))
            shutil.copytree(pick("a2lmacros"), os.path.join(srepo, "a2lmacros"),
                            ignore=shutil.ignore_patterns("target"))
            a2l = pick(os.path.join("a2lfile", "Cargo.toml"))
            shutil.copytree(os.path.dirname(a2l), os.path.join(srepo, "a2lfile"),
                            ignore=shutil.ignore_patterns("target"))
            src = os.path.join(args.repo, "a2lfile", "src")
            if os.path.dirname(a2l) != os.path.join(args.repo, "a2lfile") and os.path.isdir(src):
                shutil.rmtree(os.path.join(srepo, "a2lfile", "src"))
                shutil.copytree(src, os.path.join(srepo, "a2lfile", "src"))
            inject(args.group, srepo)
        except (OSError, ToolError) as e:
            doc["error"] = "scratch setup failed: %s" % e
            for h in harnesses:
                doc["harnesses"].append({"name": h["name"], "status": "error", "bound": h["bound"],
                                         "complete": h["complete"], "seconds": 0, "checks": None,
                                         "detail": doc["error"]})
            print(json.dumps(doc, indent=1))
            return 2
        crate_dir = os.path.join(srepo, "a2lfile")
        t0 = time.time()
        rc, out, secs, timed_out = run_cmd(["cargo", "kani", "--only-codegen"], crate_dir, 900, limit=False)
        doc["compile_seconds"] = round(secs, 1)
        if rc != 0 or timed_out:
            errs = "\n".join(l for l in out.splitlines() if l.startswith("error"))[:2000]
            doc["error"] = "cargo kani --only-codegen failed (rc=%s): %s" % (rc, errs or out[-2000:])
            for h in harnesses:
                doc["harnesses"].append({"name": h["name"], "status": "error", "bound": h["bound"],
                                         "complete": h["complete"], "seconds": 0, "checks": None,
                                         "detail": "compile error"})
            print(json.dumps(doc, indent=1))
            return 2
        with concurrent.futures.ThreadPoolExecutor(max_workers=jobs) as ex:
            results = list(ex.map(lambda h: run_harness(h, crate_dir, default_timeout), harnesses))
        doc["harnesses"] = results
        doc["total_seconds"] = round(time.time() - t0, 1)
        st = [r["status"] for r in results]
        doc["summary"] = {s: st.count(s) for s in ("success", "failed", "timeout", "error")}
        if "failed" in st:
            exit_code = 1
        elif "timeout" in st or "error" in st:
            exit_code = 2
        print(json.dumps(doc, indent=1))
        return exit_code
    finally:
        if args.keep:
            sys.stderr.write("scratch kept: %s\n" % scratch)
        else:
            shutil.rmtree(scratch, ignore_errors=True)


if __name__ == "__main__":
    sys.exit(main())
